(* Eval/UnknownSound_Gamma.v — C05: the concretisation relation.

   [gsb a c] ("strict gamma", on mark-free values): the abstract value [a] is concretised by [c]:
     - a known part of [a] is (Leibniz-)equal to the corresponding part of [c], type tags included;
     - [VUnk t r] is concretised by every WHOLLY KNOWN [c] whose type conforms to [t] ([conf]:
       TDyn conforms to anything, at any depth) and which satisfies each refinement of [r]
       ([refn_ok]); [RWild] carries no claim;
     - collections and structures elementwise (sets positionally, see DESIGN note below).
   Marks are ignored: [gamma_strict a c := gsb (unmark_deep a) (unmark_deep c) = true].
   [gamma] additionally allows the abstract value to be converted to the concrete value's type
   first (the wording of the property); [gamma_strict a c -> gamma a c].

   Side invariant [inv] (all values handled by the soundness proof): no marks, collections
   well typed (every element of [VList t l] has type [t]), numbers in canonical form
   ([Qred q = q]; Values.v: "kept reduced"). *)
From Coq Require Import QArith Qreduction.
From HclV Require Import Base.Prelude Cty.Values Cty.Convert Cty.Ops Eval.Impl
                         Eval.UnknownSound_Base.
Open Scope Z_scope.

(* ---- numbers: Leibniz equality and canonical form ----------------------------------------- *)
Definition q_leib (a b : Q) : bool := (Qnum a =? Qnum b) && Pos.eqb (Qden a) (Qden b).
Definition num_leib (a b : num) : bool :=
  match a, b with
  | NQ x, NQ y => q_leib x y
  | NInf p, NInf q => Bool.eqb p q
  | _, _ => false
  end.
Lemma q_leib_eq a b : q_leib a b = true <-> a = b.
Proof.
  unfold q_leib. rewrite andb_true_iff, Z.eqb_eq, Pos.eqb_eq. destruct a, b; simpl. split.
  - intros [-> ->]. reflexivity.
  - intros E. injection E as -> ->. split; reflexivity.
Qed.
Lemma num_leib_eq a b : num_leib a b = true <-> a = b.
Proof.
  destruct a as [x|p], b as [y|q]; simpl; try (split; [discriminate|discriminate]).
  - rewrite q_leib_eq. split; congruence.
  - rewrite Bool.eqb_true_iff. split; congruence.
Qed.
Lemma num_leib_refl a : num_leib a a = true.
Proof. apply num_leib_eq. reflexivity. Qed.

Definition canon_num (n : num) : bool := match n with NQ q => q_leib (Qred q) q | NInf _ => true end.
Definition canon_bound (o : option (num * bool)) : bool := match o with Some (n, _) => canon_num n | None => true end.
Definition canon_refn (x : refn) : bool := canon_bound (r_lo x) && canon_bound (r_hi x).

Lemma Qred_idem q : Qred (Qred q) = Qred q.
Proof. apply Qred_complete. apply Qred_correct. Qed.
Lemma canon_nq q : canon_num (nq q) = true.
Proof. unfold nq. simpl. apply q_leib_eq. apply Qred_idem. Qed.
Lemma canon_num_eq a b : canon_num a = true -> canon_num b = true -> num_eqb a b = true -> a = b.
Proof.
  destruct a as [x|p], b as [y|q]; simpl; try discriminate.
  - intros Ca Cb E. apply q_leib_eq in Ca, Cb. unfold q_eqb in E. apply Qeq_bool_iff in E.
    apply Qred_complete in E. congruence.
  - intros _ _ E. apply Bool.eqb_prop in E. congruence.
Qed.
Lemma canon_nz z : canon_num (nz z) = true.
Proof.
  unfold nz, canon_num. apply q_leib_eq. unfold Qred, inject_Z. simpl.
  pose proof (Z.ggcd_correct_divisors z 1) as H. pose proof (Z.ggcd_gcd z 1) as G.
  destruct (Z.ggcd z 1) as [g [aa bb]]. simpl in *. destruct H as [H1 H2].
  rewrite Z.gcd_1_r in G. subst g. rewrite Z.mul_1_l in H1, H2. subst aa bb. reflexivity.
Qed.

(* ---- conformance of types (TestConformance), structural --------------------------------------- *)
(* [ty_all2] / [ty_conf] are defined in Cty/Ops.v (Equals consults conformance, ValueRange.Includes) *)
Notation all2 := ty_all2.

Lemma all2_Forall2 {A B} (f : A -> B -> bool) l1 l2 :
  all2 f l1 l2 = true <-> Forall2 (fun x y => f x y = true) l1 l2.
Proof.
  revert l2. induction l1 as [|x r IH]; intros [|y r2]; simpl; split; intros H;
    try discriminate; try (inversion H; fail); try constructor.
  - apply andb_true_iff in H. tauto.
  - apply IH. apply andb_true_iff in H. tauto.
  - inversion H; subst. apply andb_true_iff. split; [assumption|apply IH; assumption].
Qed.

Notation conf := ty_conf.

Lemma conf_refl : forall t, conf t t = true.
Proof.
  induction t as [| | | |x IH|x IH|x IH|ts IH|fs IH] using ty_ind'; simpl; try reflexivity; try assumption.
  - apply all2_Forall2. induction IH; constructor; assumption.
  - apply all2_Forall2. induction IH as [|[k x] r Hx _ IHr]; constructor; [|assumption].
    simpl. rewrite str_eqb_refl. exact Hx.
Qed.

Lemma conf_nodyn : forall have want, has_dyn want = false -> conf have want = true -> have = want.
Proof.
  induction have as [| | | |x IH|x IH|x IH|ts IH|fs IH] using ty_ind'; intros want Hd C;
    destruct want; simpl in *; try discriminate; try reflexivity;
    try (apply ty_eqb_eq in C; exact C).
  - f_equal. apply IH; assumption.
  - f_equal. apply IH; assumption.
  - f_equal. apply IH; assumption.
  - f_equal. apply existsb_false_Forall in Hd. apply all2_Forall2 in C.
    revert ts0 Hd C. induction IH as [|x r Hx _ IHr]; intros ys Hd C; inversion C; subst; [reflexivity|].
    inversion Hd; subst. f_equal; [apply Hx; assumption|apply IHr; assumption].
  - f_equal. apply existsb_false_Forall in Hd. apply all2_Forall2 in C.
    revert fs0 Hd C. induction IH as [|[k x] r Hx _ IHr]; intros ys Hd C; inversion C as [|? [k' y] ? ? Hxy]; subst; [reflexivity|].
    inversion Hd; subst. simpl in *. apply andb_true_iff in Hxy as [Hk Hc]. apply str_eqb_eq in Hk. subst.
    f_equal; [f_equal; apply Hx; assumption|apply IHr; assumption].
Qed.

(* ---- refinements ---------------------------------------------------------------------------------- *)
Definition bound_lo_ok (o : option (num * bool)) (n : num) : bool :=
  match o with None => true | Some (b, inc) => if inc then negb (num_ltb n b) else num_ltb b n end.
Definition bound_hi_ok (o : option (num * bool)) (n : num) : bool :=
  match o with None => true | Some (b, inc) => if inc then negb (num_ltb b n) else num_ltb n b end.
Definition len_ok (x : refn) (len : Z) : bool :=
  (r_lenlo x <=? len) && match r_lenhi x with Some h => len <=? h | None => true end.

(* does the (wholly known, unmarked) value satisfy the refinement? *)
Definition refn_ok (x : refn) (c : val) : bool :=
  match c with
  | VNull _ => negb (r_notnull x)
  | VStr s => is_prefix_of (r_prefix x) s
  | VNum n => bound_lo_ok (r_lo x) n && bound_hi_ok (r_hi x) n
  | VList _ l | VSet _ l => len_ok x (Z.of_nat (length l))
  | VMap _ l => len_ok x (Z.of_nat (length l))
  | _ => true
  end.

Definition conc (t : ty) (r : rf) (c : val) : bool :=
  wholly_known c && conf (type_of c) t && match r with RWild => true | RExact x => refn_ok x c end.

(* ---- strict gamma on mark-free values --------------------------------------------------------------- *)
Fixpoint gsb (a c : val) {struct a} : bool :=
  match a with
  | VStr s => match c with VStr s' => str_eqb s s' | _ => false end
  | VNum n => match c with VNum n' => num_leib n n' | _ => false end
  | VBool b => match c with VBool b' => Bool.eqb b b' | _ => false end
  | VNull t => match c with VNull t' => ty_eqb t t' | _ => false end
  | VUnk t r => conc t r c
  | VList t la => match c with VList t' lc => ty_eqb t t' && all2 gsb la lc | _ => false end
  | VSet t la => match c with VSet t' lc => ty_eqb t t' && all2 gsb la lc | _ => false end
  | VMap t la =>
      match c with
      | VMap t' lc => ty_eqb t t' && all2 (fun p q => str_eqb (fst p) (fst q) && gsb (snd p) (snd q)) la lc
      | _ => false
      end
  | VTuple la => match c with VTuple lc => all2 gsb la lc | _ => false end
  | VObj la =>
      match c with
      | VObj lc => all2 (fun p q => str_eqb (fst p) (fst q) && gsb (snd p) (snd q)) la lc
      | _ => false
      end
  | VMark _ _ => false
  end.

Definition gamma_strict (a c : val) : Prop := gsb (unmark_deep a) (unmark_deep c) = true.

(* the property's wording: compare after converting the abstract value to the concrete type *)
Definition gammab (a c : val) : bool :=
  let a0 := unmark_deep a in let c0 := unmark_deep c in
  gsb a0 c0 || match conv a0 (type_of c0) with COk a' => gsb a' c0 | _ => false end.
Definition gamma (a c : val) : Prop := gammab a c = true.

Lemma gamma_strict_gamma a c : gamma_strict a c -> gamma a c.
Proof. unfold gamma_strict, gamma, gammab. intros ->. reflexivity. Qed.

(* ---- the side invariant ---------------------------------------------------------------------------- *)
Fixpoint inv (v : val) : bool :=
  match v with
  | VStr _ | VBool _ | VNull _ => true
  | VNum n => canon_num n
  | VUnk _ r => match r with RWild => true | RExact x => canon_refn x end
  | VList t l | VSet t l => forallb (fun x => ty_eqb (type_of x) t && inv x) l
  | VMap t l => forallb (fun p => ty_eqb (type_of (snd p)) t && inv (snd p)) l
  | VTuple l => forallb inv l
  | VObj l => forallb (fun p => inv (snd p)) l
  | VMark _ _ => false
  end.

Lemma inv_not_marked v : inv v = true -> is_marked v = false.
Proof. destruct v; try reflexivity. discriminate. Qed.

Lemma inv_mwf : forall v, inv v = true -> mwf v = true.
Proof.
  induction v as [s|n|b|t|t r|t l IH|t l IH|t l IH|l IH|l IH|m v IH] using val_ind'; intros H;
    try reflexivity; try discriminate; simpl in *.
  - rewrite forallb_Forall in *. rewrite Forall_forall in *. intros x Hx.
    specialize (H x Hx). apply andb_true_iff in H as [_ H]. auto.
  - rewrite forallb_Forall in *. rewrite Forall_forall in *. intros x Hx.
    specialize (H x Hx). apply andb_true_iff in H as [_ H]. auto.
  - rewrite forallb_Forall in *. rewrite Forall_forall in *. intros x Hx.
    specialize (H x Hx). apply andb_true_iff in H as [_ H]. auto.
  - rewrite forallb_Forall in *. rewrite Forall_forall in *. intros x Hx. auto.
  - rewrite forallb_Forall in *. rewrite Forall_forall in *. intros x Hx. auto.
Qed.

Lemma inv_unmark v : inv v = true -> unmark v = (v, []).
Proof. destruct v; try reflexivity. discriminate. Qed.
Lemma inv_with_marks_nil v : with_marks v [] = v.
Proof. reflexivity. Qed.
Lemma inv_marks_of v : inv v = true -> marks_of v = [].
Proof. intros H. unfold marks_of. rewrite (inv_unmark v H). reflexivity. Qed.

Lemma inv_unmark_deep : forall v, inv v = true -> unmark_deep v = v.
Proof.
  induction v as [s|n|b|t|t r|t l IH|t l IH|t l IH|l IH|l IH|m v IH] using val_ind'; intros H;
    try reflexivity; try discriminate; simpl in *; f_equal.
  - rewrite forallb_Forall in H. rewrite Forall_forall in *.
    transitivity (map (fun x : val => x) l); [|apply map_id]. apply map_ext_in. intros x Hx.
    specialize (H x Hx). apply andb_true_iff in H as [_ H]. auto.
  - rewrite forallb_Forall in H. rewrite Forall_forall in *.
    transitivity (map (fun x : val => x) l); [|apply map_id]. apply map_ext_in. intros x Hx.
    specialize (H x Hx). apply andb_true_iff in H as [_ H]. auto.
  - rewrite forallb_Forall in H. rewrite Forall_forall in *.
    transitivity (map (fun x : list Z * val => x) l); [|apply map_id]. apply map_ext_in. intros [k x] Hx.
    specialize (H _ Hx). apply andb_true_iff in H as [_ H]. simpl in *. f_equal. apply (IH _ Hx H).
  - rewrite forallb_Forall in H. rewrite Forall_forall in *.
    transitivity (map (fun x : val => x) l); [|apply map_id]. apply map_ext_in. intros x Hx. auto.
  - rewrite forallb_Forall in H. rewrite Forall_forall in *.
    transitivity (map (fun x : list Z * val => x) l); [|apply map_id]. apply map_ext_in. intros [k x] Hx.
    specialize (H _ Hx). simpl in *. f_equal. apply (IH _ Hx H).
Qed.

Lemma inv_deep_marks : forall v, inv v = true -> deep_marks v = [].
Proof.
  assert (Q : forall (l : list marks), Forall (fun m => m = []) l -> marks_unions l = []).
  { induction 1 as [|m r Hm _ IH]; [reflexivity|]. simpl. rewrite Hm, IH. reflexivity. }
  induction v as [s|n|b|t|t r|t l IH|t l IH|t l IH|l IH|l IH|m v IH] using val_ind'; intros H;
    try reflexivity; try discriminate; simpl in *; apply Q; apply Forall_forall; intros m Hm;
    apply in_map_iff in Hm as [x [<- Hx]]; rewrite forallb_Forall in H; rewrite Forall_forall in *.
  - specialize (H x Hx). apply andb_true_iff in H as [_ H]. auto.
  - specialize (H x Hx). apply andb_true_iff in H as [_ H]. auto.
  - specialize (H x Hx). apply andb_true_iff in H as [_ H]. apply (IH _ Hx H).
  - auto.
  - apply (IH _ Hx (H _ Hx)).
Qed.

Lemma inv_good v : inv v = true -> wholly_known v = true -> good v = true.
Proof. intros I W. apply good_iff. split; [exact W|apply inv_mwf; exact I]. Qed.

Lemma gamma_strict_inv a c : inv a = true -> inv c = true -> (gamma_strict a c <-> gsb a c = true).
Proof. intros Ia Ic. unfold gamma_strict. rewrite (inv_unmark_deep a Ia), (inv_unmark_deep c Ic). tauto. Qed.

(* ---- basic facts about gsb --------------------------------------------------------------------------- *)
Lemma all2_length {A B} (f : A -> B -> bool) l1 l2 : all2 f l1 l2 = true -> length l1 = length l2.
Proof. intros H. apply all2_Forall2 in H. apply (Forall2_length _ _ _ H). Qed.

Lemma conc_wk t r c : conc t r c = true -> wholly_known c = true.
Proof. unfold conc. intros H. apply andb_true_iff in H as [H _]. apply andb_true_iff in H as [H _]. exact H. Qed.

Lemma gsb_wk : forall a c, gsb a c = true -> wholly_known c = true.
Proof.
  induction a as [s|n|b|t|t r|t l IH|t l IH|t l IH|l IH|l IH|m v IH] using val_ind'; intros c H;
    simpl in H; try (destruct c; try discriminate; reflexivity); try discriminate.
  - apply (conc_wk _ _ _ H).
  - destruct c; try discriminate. apply andb_true_iff in H as [_ H]. apply all2_Forall2 in H. simpl.
    apply forallb_Forall. revert l0 H. induction IH as [|x r Hx _ IHr]; intros l0 H; inversion H; subst; constructor; auto.
  - destruct c; try discriminate. apply andb_true_iff in H as [_ H]. apply all2_Forall2 in H. simpl.
    apply forallb_Forall. revert l0 H. induction IH as [|x r Hx _ IHr]; intros l0 H; inversion H; subst; constructor; auto.
  - destruct c; try discriminate. apply andb_true_iff in H as [_ H]. apply all2_Forall2 in H. simpl.
    apply forallb_Forall. revert l0 H. induction IH as [|x r Hx _ IHr]; intros l0 H; inversion H as [|? y ? ? Hxy]; subst; constructor; auto.
    apply andb_true_iff in Hxy as [_ Hxy]. auto.
  - destruct c; try discriminate. apply all2_Forall2 in H. simpl.
    apply forallb_Forall. revert l0 H. induction IH as [|x r Hx _ IHr]; intros l0 H; inversion H; subst; constructor; auto.
  - destruct c; try discriminate. apply all2_Forall2 in H. simpl.
    apply forallb_Forall. revert l0 H. induction IH as [|x r Hx _ IHr]; intros l0 H; inversion H as [|? y ? ? Hxy]; subst; constructor; auto.
    apply andb_true_iff in Hxy as [_ Hxy]. auto.
Qed.

Lemma gsb_known_eq : forall a c, wholly_known a = true -> gsb a c = true -> c = a.
Proof.
  induction a as [s|n|b|t|t r|t l IH|t l IH|t l IH|l IH|l IH|m v IH] using val_ind'; intros c W H;
    simpl in H, W; try discriminate; destruct c; try discriminate.
  - apply str_eqb_eq in H. congruence.
  - apply num_leib_eq in H. congruence.
  - apply Bool.eqb_prop in H. congruence.
  - apply ty_eqb_eq in H. congruence.
  - apply andb_true_iff in H as [Ht H]. apply ty_eqb_eq in Ht. subst. f_equal.
    apply all2_Forall2 in H. rewrite forallb_Forall in W.
    revert l0 H W. induction IH as [|x r Hx _ IHr]; intros l0 H W; inversion H; subst; [reflexivity|].
    inversion W; subst. f_equal; [apply Hx; assumption|apply IHr; assumption].
  - apply andb_true_iff in H as [Ht H]. apply ty_eqb_eq in Ht. subst. f_equal.
    apply all2_Forall2 in H. rewrite forallb_Forall in W.
    revert l0 H W. induction IH as [|x r Hx _ IHr]; intros l0 H W; inversion H; subst; [reflexivity|].
    inversion W; subst. f_equal; [apply Hx; assumption|apply IHr; assumption].
  - apply andb_true_iff in H as [Ht H]. apply ty_eqb_eq in Ht. subst. f_equal.
    apply all2_Forall2 in H. rewrite forallb_Forall in W.
    revert l0 H W. induction IH as [|[k x] r Hx _ IHr]; intros l0 H W; inversion H as [|? [k' y] ? ? Hxy]; subst; [reflexivity|].
    inversion W; subst. simpl in *. apply andb_true_iff in Hxy as [Hk Hxy]. apply str_eqb_eq in Hk. subst.
    f_equal; [f_equal; apply Hx; assumption|apply IHr; assumption].
  - f_equal. apply all2_Forall2 in H. rewrite forallb_Forall in W.
    revert l0 H W. induction IH as [|x r Hx _ IHr]; intros l0 H W; inversion H; subst; [reflexivity|].
    inversion W; subst. f_equal; [apply Hx; assumption|apply IHr; assumption].
  - f_equal. apply all2_Forall2 in H. rewrite forallb_Forall in W.
    revert l0 H W. induction IH as [|[k x] r Hx _ IHr]; intros l0 H W; inversion H as [|? [k' y] ? ? Hxy]; subst; [reflexivity|].
    inversion W; subst. simpl in *. apply andb_true_iff in Hxy as [Hk Hxy]. apply str_eqb_eq in Hk. subst.
    f_equal; [f_equal; apply Hx; assumption|apply IHr; assumption].
Qed.

Lemma gsb_refl : forall a, wholly_known a = true -> is_marked a = false -> contains_marked a = false -> gsb a a = true.
Proof.
  induction a as [s|n|b|t|t r|t l IH|t l IH|t l IH|l IH|l IH|m v IH] using val_ind'; intros W M CM;
    simpl in *; try discriminate.
  - apply str_eqb_refl.
  - apply num_leib_refl.
  - apply Bool.eqb_reflx.
  - apply ty_eqb_refl.
  - rewrite ty_eqb_refl. simpl. apply all2_Forall2. rewrite forallb_Forall in W. apply existsb_false_Forall in CM.
    induction IH as [|x r Hx _ IHr]; [constructor|]. inversion W; inversion CM; subst.
    constructor; [|apply IHr; assumption]. apply Hx; try assumption. destruct x; try reflexivity; discriminate.
  - rewrite ty_eqb_refl. simpl. apply all2_Forall2. rewrite forallb_Forall in W. apply existsb_false_Forall in CM.
    induction IH as [|x r Hx _ IHr]; [constructor|]. inversion W; inversion CM; subst.
    constructor; [|apply IHr; assumption]. apply Hx; try assumption. destruct x; try reflexivity; discriminate.
  - rewrite ty_eqb_refl. simpl. apply all2_Forall2. rewrite forallb_Forall in W. apply existsb_false_Forall in CM.
    induction IH as [|[k x] r Hx _ IHr]; [constructor|]. inversion W; inversion CM; subst. simpl in *.
    constructor; [|apply IHr; assumption]. simpl. rewrite str_eqb_refl. simpl.
    apply Hx; try assumption. destruct x; try reflexivity; discriminate.
  - apply all2_Forall2. rewrite forallb_Forall in W. apply existsb_false_Forall in CM.
    induction IH as [|x r Hx _ IHr]; [constructor|]. inversion W; inversion CM; subst.
    constructor; [|apply IHr; assumption]. apply Hx; try assumption. destruct x; try reflexivity; discriminate.
  - apply all2_Forall2. rewrite forallb_Forall in W. apply existsb_false_Forall in CM.
    induction IH as [|[k x] r Hx _ IHr]; [constructor|]. inversion W; inversion CM; subst. simpl in *.
    constructor; [|apply IHr; assumption]. simpl. rewrite str_eqb_refl. simpl.
    apply Hx; try assumption. destruct x; try reflexivity; discriminate.
Qed.

Lemma inv_contains_marked : forall v, inv v = true -> contains_marked v = false.
Proof.
  induction v as [s|n|b|t|t r|t l IH|t l IH|t l IH|l IH|l IH|m v IH] using val_ind'; intros H;
    try reflexivity; try discriminate; simpl in *; apply existsb_false_Forall;
    rewrite forallb_Forall in H; rewrite Forall_forall in *; intros x Hx.
  - specialize (H x Hx). apply andb_true_iff in H as [_ H]. auto.
  - specialize (H x Hx). apply andb_true_iff in H as [_ H]. auto.
  - specialize (H x Hx). apply andb_true_iff in H as [_ H]. auto.
  - auto.
  - auto.
Qed.

Lemma gsb_refl_inv a : wholly_known a = true -> inv a = true -> gsb a a = true.
Proof. intros W I. apply gsb_refl; [exact W|apply inv_not_marked; exact I|apply inv_contains_marked; exact I]. Qed.

(* the type of the concrete value conforms to the type of the abstract one *)
Lemma gsb_type : forall a c, gsb a c = true -> conf (type_of c) (type_of a) = true.
Proof.
  induction a as [s|n|b|t|t r|t l IH|t l IH|t l IH|l IH|l IH|m v IH] using val_ind'; intros c H;
    simpl in H; try discriminate; try (destruct c; try discriminate; reflexivity).
  - destruct c; try discriminate. apply ty_eqb_eq in H. subst. apply conf_refl.
  - unfold conc in H. apply andb_true_iff in H as [H _]. apply andb_true_iff in H as [_ H]. exact H.
  - destruct c; try discriminate. apply andb_true_iff in H as [Ht _]. apply ty_eqb_eq in Ht. subst. apply conf_refl.
  - destruct c; try discriminate. apply andb_true_iff in H as [Ht _]. apply ty_eqb_eq in Ht. subst. apply conf_refl.
  - destruct c; try discriminate. apply andb_true_iff in H as [Ht _]. apply ty_eqb_eq in Ht. subst. apply conf_refl.
  - destruct c; try discriminate. simpl. apply all2_Forall2 in H. apply all2_Forall2.
    revert l0 H. induction IH as [|x r Hx _ IHr]; intros l0 H; inversion H; subst; simpl; constructor; auto.
  - destruct c; try discriminate. simpl. apply all2_Forall2 in H. apply all2_Forall2.
    revert l0 H. induction IH as [|[k x] r Hx _ IHr]; intros l0 H; inversion H as [|? [k' y] ? ? Hxy]; subst; simpl; constructor; auto.
    simpl in *. apply andb_true_iff in Hxy as [Hk Hxy]. apply str_eqb_eq in Hk. subst.
    rewrite str_eqb_refl. simpl. auto.
Qed.

Lemma gsb_type_eq a c : gsb a c = true -> has_dyn (type_of a) = false -> type_of c = type_of a.
Proof. intros H Hd. apply (conf_nodyn _ _ Hd (gsb_type a c H)). Qed.
