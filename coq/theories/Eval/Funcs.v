(* Eval/Funcs.v — the fixed function table of the harness (twin of
   harness/hv/evalgen.go HarnessFuncs).  It exercises every parameter feature of
   the call rules: positional and variadic parameters, typed and dynamically
   typed parameters, AllowNull/AllowUnknown/AllowDynamicType/AllowMarked on and
   off, a return type that depends on the arguments, and a function that fails. *)
From Coq Require Import QArith.
From HclV Require Import Base.Prelude Cty.Values Cty.Convert Cty.Ops Eval.Impl.
Open Scope Z_scope.

Definition P (name : list Z) (t : ty) (nul unk dyn mrk : bool) : fparam := mkParam name t nul unk dyn mrk.

Definition upper_byte (c : Z) : Z := if (97 <=? c) && (c <=? 122) then c - 32 else c.

Definition fn_upper : fn :=
  mkFn [P [115] TStr false false false false] None (fun _ => Some TStr)
       (fun args _ => match args with [VStr s] => OOk (VStr (map upper_byte s)) | _ => OUnsupported end).

Definition fn_sum : fn :=
  mkFn [] (Some (P [110;117;109;115] TNum false false false false)) (fun _ => Some TNum)
       (fun args _ =>
          fold_left (fun acc a =>
            match acc, a with
            | OOk (VNum x), VNum y => match num_add x y with Some n => OOk (VNum n) | None => OErr OEOther end
            | OOk _, _ => OUnsupported
            | o, _ => o
            end) args (OOk (VNum (nz 0)))).

Definition fn_first : fn :=
  mkFn [P [118] TDyn true true true true] (Some (P [114;101;115;116] TDyn true true true true))
       (fun args => match args with a :: _ => Some (type_of a) | [] => None end)
       (fun args _ => match args with a :: _ => OOk a | [] => OUnsupported end).

Definition fn_fail : fn :=
  mkFn [P [115] TStr false false false false] None (fun _ => Some TStr) (fun _ _ => OErr OEOther).

Definition fn_isnull : fn :=
  mkFn [P [118] TDyn true false true false] None (fun _ => Some TBool)
       (fun args _ => match args with [a] => OOk (VBool (is_null a)) | _ => OUnsupported end).

Definition fn_pair : fn :=
  mkFn [P [97] TStr false false false false; P [98] TNum true false false false] None
       (fun _ => Some (TTuple [TStr; TNum]))
       (fun args _ => match args with [a; b] => OOk (VTuple [a; b]) | _ => OUnsupported end).
