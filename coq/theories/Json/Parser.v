(* Json/Parser.v — executable model of json/parser.go (parseFileContent,
   parseExpression, parseValue, parseObject, parseArray, parseNumber,
   parseString, parseKeyword, the two recover closures), json/peeker.go and the
   root check of json/public.go (ParseWithStartPos).  Definitions only.  One
   Gallina function per Go function, same order of checks.

   Diagnostics are reduced to the list of their kinds (one code per Summary,
   in the order they are appended); "accepted" = that list is empty.  A nil
   node is [None]; parseValue's wrapInvalid turns it into [JInvalid].

   Recursion: parse_value takes explicit fuel (nesting depth; number of tokens
   + 1 is always enough, ParserProofs.jparse_total); the two loops take their
   own fuel (number of remaining tokens + 1).  [Fuel] is a distinct outcome.
   Indexing the token slice out of range would panic in Go: [Panic].  It is
   unreachable because scan always ends with EOF and Read never passes it.

   parseNumber / parseString delegate validity to encoding/json and to
   cty.ParseNumberVal (= big.ParseFloat(s, 10, 512, ToNearestEven)).  These are
   trusted libraries; [json_number_ok], [big_parse_ok], [json_string_decode]
   model what they accept and are calibrated by the correspondence run. *)
From HclV Require Import Base.Prelude Json.Rfc8259 Json.Scanner.

(* ---- encoding/json: number syntax (scanner.go state0/1/Dot/Dot0/E/ESign/E0) -- *)

Inductive nstate := NBegin | NNeg | N0 | N1 | NDot | NDot0 | NE | NESign | NE0.

(* One step of the scanner inside a number.  A number token holds only bytes of
   [-+.eE0-9], so every byte that would end the value is an error here. *)
Definition num_step (st : nstate) (c : Z) : option nstate :=
  let dig := sc_digit c in
  let nz := rng 49 57 c in
  let e := (c =? 101) || (c =? 69) in
  match st with
  | NBegin => if c =? 45 then Some NNeg else if c =? 48 then Some N0 else if nz then Some N1 else None
  | NNeg => if c =? 48 then Some N0 else if nz then Some N1 else None
  | N1 => if dig then Some N1 else if c =? 46 then Some NDot else if e then Some NE else None
  | N0 => if c =? 46 then Some NDot else if e then Some NE else None
  | NDot => if dig then Some NDot0 else None
  | NDot0 => if dig then Some NDot0 else if e then Some NE else None
  | NE => if (c =? 43) || (c =? 45) then Some NESign else if dig then Some NE0 else None
  | NESign => if dig then Some NE0 else None
  | NE0 => if dig then Some NE0 else None
  end.

Definition num_final (st : nstate) : bool :=
  match st with N0 | N1 | NDot0 | NE0 => true | _ => false end.

Fixpoint num_sm (st : nstate) (bs : list Z) : bool :=
  match bs with
  | [] => num_final st
  | c :: r => match num_step st c with Some st' => num_sm st' r | None => false end
  end.

(* json.Unmarshal(tok.Bytes, &num) == nil, num a json.Number *)
Definition json_number_ok (bs : list Z) : bool := num_sm NBegin bs.

(* ---- math/big Float.scan on a syntactically valid JSON number -------------- *)

(* nat.scan with fracOk: mantissa digits, fcount = number of digits after the point *)
Fixpoint scan_mantissa (bs : list Z) (m fc : Z) (dot : bool) : Z * Z * list Z :=
  match bs with
  | c :: r =>
      if sc_digit c then scan_mantissa r (10 * m + (c - 48)) (if dot then fc + 1 else fc) dot
      else if (c =? 46) && negb dot then scan_mantissa r m fc true
      else (m, fc, bs)
  | [] => (m, fc, [])
  end.

Fixpoint scan_digits (bs : list Z) (a : Z) : Z :=
  match bs with
  | c :: r => if sc_digit c then scan_digits r (10 * a + (c - 48)) else a
  | [] => a
  end.

(* scanExponent: value of the exponent part (0 when absent) *)
Definition scan_exponent (bs : list Z) : Z :=
  match bs with
  | [] => 0
  | _ :: 45 :: ds => - scan_digits ds 0
  | _ :: 43 :: ds => scan_digits ds 0
  | _ :: ds => scan_digits ds 0
  end.

(* (negative?, mantissa integer, fraction digit count, exponent) *)
Definition big_parse (bs : list Z) : bool * Z * Z * Z :=
  let '(neg, r) := match bs with 45 :: r => (true, r) | _ => (false, bs) end in
  let '(m, fc, r') := scan_mantissa r 0 0 false in
  (neg, m, fc, scan_exponent r').

Definition bitlen (m : Z) : Z := if m <=? 0 then 0 else Z.log2 m + 1.

(* big.ParseFloat succeeds: the exponent fits int64 (strconv.ParseInt), and for
   a non-zero mantissa MinExp <= bitlen(m) - fcount + exp <= MaxExp (int32). *)
Definition big_parse_ok (bs : list Z) : bool :=
  let '(_, m, fc, x) := big_parse bs in
  (- 9223372036854775808 <=? x) && (x <=? 9223372036854775807)
  && ((m =? 0) || ((- 2147483648 <=? bitlen m - fc + x) && (bitlen m - fc + x <=? 2147483647))).

(* the exact decimal the literal denotes: (mantissa, exponent) *)
Definition number_value (bs : list Z) : Z * Z :=
  let '(neg, m, fc, x) := big_parse bs in ((if neg then - m else m), x - fc).

(* ---- unicode/utf8.DecodeRune ----------------------------------------------- *)

(* utf8.first / utf8.acceptRanges: (size, lo, hi of the second byte); size 0 = invalid *)
Definition first_class (b : Z) : nat * Z * Z :=
  if rng 194 223 b then (2%nat, 128, 191)
  else if b =? 224 then (3%nat, 160, 191)
  else if rng 225 236 b then (3%nat, 128, 191)
  else if b =? 237 then (3%nat, 128, 159)
  else if rng 238 239 b then (3%nat, 128, 191)
  else if b =? 240 then (4%nat, 144, 191)
  else if rng 241 243 b then (4%nat, 128, 191)
  else if b =? 244 then (4%nat, 128, 143)
  else (0%nat, 0, 0).

(* size of the well-formed multi-byte sequence at the head of bs (first byte
   >= 0x80); 0 when DecodeRune returns (RuneError, 1) *)
Definition go_rune_len (bs : list Z) : nat :=
  match bs with
  | [] => 0%nat
  | p0 :: r =>
      let '(sz, lo, hi) := first_class p0 in
      match sz with
      | O => 0%nat
      | _ =>
        match r with
        | [] => 0%nat
        | b1 :: r1 =>
            if negb (rng lo hi b1) then 0%nat
            else if Nat.eqb sz 2 then 2%nat
            else match r1 with
            | [] => 0%nat
            | b2 :: r2 =>
                if negb (rng 128 191 b2) then 0%nat
                else if Nat.eqb sz 3 then 3%nat
                else match r2 with
                | [] => 0%nat
                | b3 :: _ => if rng 128 191 b3 then 4%nat else 0%nat
                end
            end
        end
      end
  end.

(* utf8.Valid *)
Fixpoint utf8_valid_from (bs : list Z) (pend : nat) : bool :=
  match bs with
  | [] => Nat.eqb pend 0
  | c :: r =>
      match pend with
      | S p => utf8_valid_from r p
      | O => if c <? 128 then utf8_valid_from r 0%nat
             else match go_rune_len bs with
                  | O => false
                  | S k => utf8_valid_from r k
                  end
      end
  end.
Definition utf8_valid (bs : list Z) : bool := utf8_valid_from bs 0%nat.

(* ---- encoding/json: string syntax and unquoting (checkValid + unquoteBytes) -- *)

Definition hex_val (c : Z) : option Z :=
  if rng 48 57 c then Some (c - 48)
  else if rng 97 102 c then Some (c - 87)
  else if rng 65 70 c then Some (c - 55)
  else None.

(* getu4 on the four bytes after backslash-u *)
Definition getu4 (h1 h2 h3 h4 : Z) : option Z :=
  match hex_val h1, hex_val h2, hex_val h3, hex_val h4 with
  | Some a, Some b, Some c, Some d => Some (((a * 16 + b) * 16 + c) * 16 + d)
  | _, _, _, _ => None
  end.

Definition simple_escape (e : Z) : option Z :=
  if (e =? 34) || (e =? 92) || (e =? 47) then Some e
  else if e =? 98 then Some 8 else if e =? 102 then Some 12
  else if e =? 110 then Some 10 else if e =? 114 then Some 13
  else if e =? 116 then Some 9 else None.

Definition js_space (c : Z) : bool := (c =? 32) || (c =? 9) || (c =? 13) || (c =? 10).

Definition pre (p : list Z) (o : option (list Z)) : option (list Z) :=
  match o with Some s => Some (p ++ s) | None => None end.

(* utf16.IsSurrogate, utf16.DecodeRune *)
Definition is_surrogate (r : Z) : bool := (55296 <=? r) && (r <? 57344).
Definition utf16_pair (r1 r2 : Z) : option Z :=
  if (55296 <=? r1) && (r1 <? 56320) && (56320 <=? r2) && (r2 <? 57344)
  then Some (((r1 - 55296) * 1024 + (r2 - 56320)) + 65536) else None.

(* The body of a string literal after the opening quote.  pend = bytes of the
   current well-formed multi-byte sequence still to copy.  After the closing
   quote only JSON whitespace may follow (checkValid's stateEndTop). *)
Fixpoint str_loop (bs : list Z) (pend : nat) : option (list Z) :=
  match bs with
  | [] => None
  | c :: rest =>
      match pend with
      | S p => pre [c] (str_loop rest p)
      | O =>
        if c =? 34 then (if forallb js_space rest then Some [] else None)
        else if c =? 92 then
          match rest with
          | [] => None
          | e :: r1 =>
              if e =? 117 then
                match r1 with
                | h1 :: h2 :: h3 :: h4 :: r2 =>
                    match getu4 h1 h2 h3 h4 with
                    | None => None
                    | Some rr =>
                        if is_surrogate rr then
                          match r2 with
                          | b :: u :: l1 :: l2 :: l3 :: l4 :: r3 =>
                              if (b =? 92) && (u =? 117) then
                                match getu4 l1 l2 l3 l4 with
                                | Some rr1 =>
                                    match utf16_pair rr rr1 with
                                    | Some cp => pre (utf8_encode cp) (str_loop r3 0%nat)
                                    | None => pre fffd (str_loop r2 0%nat)
                                    end
                                | None => pre fffd (str_loop r2 0%nat)
                                end
                              else pre fffd (str_loop r2 0%nat)
                          | _ => pre fffd (str_loop r2 0%nat)
                          end
                        else pre (utf8_encode rr) (str_loop r2 0%nat)
                    end
                | _ => None
                end
              else match simple_escape e with
                   | Some v => pre [v] (str_loop r1 0%nat)
                   | None => None
                   end
          end
        else if c <? 32 then None
        else if c <? 128 then pre [c] (str_loop rest 0%nat)
        else match go_rune_len bs with
             | O => pre fffd (str_loop rest 0%nat)
             | S k => pre [c] (str_loop rest k)
             end
      end
  end.

(* json.Unmarshal(tok.Bytes, &str): Some s = no error and str = s *)
Definition json_string_decode (tok : list Z) : option (list Z) :=
  match tok with
  | 34 :: r => str_loop r 0%nat
  | _ => None
  end.

(* ---- peeker ----------------------------------------------------------------- *)

Definition is_eof (t : jtoken) : bool := jtype_eqb (tty t) TEOF.

(* peeker.Read: (token, remaining tokens); None = index out of range *)
Definition read (ts : list jtoken) : option (jtoken * list jtoken) :=
  match ts with
  | [] => None
  | t :: r => Some (t, if is_eof t then ts else r)
  end.

(* ---- diagnostics (one code per Summary / call site) ----------------------- *)

Definition DExtraneous := 1.        (* Extraneous data after value *)
Definition DMissingJSONValue := 2.  (* Missing JSON value *)
Definition DMissingArrayElem := 3.  (* Missing array element value *)
Definition DMissingValue := 4.      (* Missing value *)
Definition DInvalidStart := 5.      (* Invalid start of value *)
Definition DInvalidPropName := 6.   (* Invalid object property name *)
Definition DMissingObjValue := 7.   (* Missing object value *)
Definition DMissingColon := 8.      (* Missing property value colon (both details) *)
Definition DTrailingCommaObj := 9.  (* Trailing comma in object *)
Definition DUnclosed := 10.         (* Unclosed object (objects and arrays) *)
Definition DMismatchedBraces := 11. (* Mismatched braces *)
Definition DMissingComma := 12.     (* Missing attribute seperator comma (objects and arrays) *)
Definition DTrailingCommaArr := 13. (* Trailing comma in array *)
Definition DInvalidArrayValue := 14. (* Invalid array value *)
Definition DMismatchedBrackets := 15. (* Mismatched brackets *)
Definition DInvalidNumber := 16.    (* Invalid JSON number *)
Definition DInvalidString := 17.    (* Invalid JSON string *)
Definition DInvalidKeyword := 18.   (* Invalid JSON keyword *)
Definition DRootNotObject := 19.    (* Root value must be object (json.Parse only) *)

Inductive pres (A : Type) :=
| Res (a : A) (ds : list Z) (rest : list jtoken)
| Fuel
| Panic.
Arguments Res {A}. Arguments Fuel {A}. Arguments Panic {A}.

(* ---- leaves ------------------------------------------------------------------ *)

(* parseNumber *)
Definition parse_number (ts : list jtoken) : pres (option jvalue) :=
  match read ts with
  | None => Panic
  | Some (tok, rest) =>
      if negb (json_number_ok (tbytes tok)) then Res None [DInvalidNumber] rest
      else if negb (big_parse_ok (tbytes tok)) then Res None [DInvalidNumber] rest
      else let (m, e) := number_value (tbytes tok) in Res (Some (JNum m e)) [] rest
  end.

(* parseString *)
Definition parse_string (ts : list jtoken) : pres (option jvalue) :=
  match read ts with
  | None => Panic
  | Some (tok, rest) =>
      match json_string_decode (tbytes tok) with
      | None => Res None [DInvalidString] rest
      | Some s =>
          (* err == nil && !utf8.Valid(tok.Bytes) *)
          if negb (utf8_valid (tbytes tok)) then Res None [DInvalidString] rest
          else Res (Some (JStr s)) [] rest
      end
  end.

(* parseKeyword *)
Definition parse_keyword (ts : list jtoken) : pres (option jvalue) :=
  match read ts with
  | None => Panic
  | Some (tok, rest) =>
      let s := tbytes tok in
      if zlist_eqb s [116; 114; 117; 101] then Res (Some (JBool true)) [] rest
      else if zlist_eqb s [102; 97; 108; 115; 101] then Res (Some (JBool false)) [] rest
      else if zlist_eqb s [110; 117; 108; 108] then Res (Some JNull) [] rest
      else Res None [DInvalidKeyword] rest
  end.

(* ---- the recover closures --------------------------------------------------- *)

(* parseObject's recover(tok): returns the remaining tokens; None = panic *)
Fixpoint obj_recover (tok : jtoken) (ts : list jtoken) (open : Z) : option (list jtoken) :=
  let next o :=
    match ts with
    | [] => None
    | t :: r => if is_eof t then Some ts else obj_recover t r o
    end in
  match tty tok with
  | TBraceO => next (open + 1)
  | TBraceC => if open - 1 <=? 1 then Some ts else next (open - 1)
  | TEOF => Some ts
  | _ => next open
  end.

(* parseArray's recover(tok) *)
Fixpoint arr_recover (tok : jtoken) (ts : list jtoken) (open : Z) : option (list jtoken) :=
  let next o :=
    match ts with
    | [] => None
    | t :: r => if is_eof t then Some ts else arr_recover t r o
    end in
  match tty tok with
  | TBrackO => next (open + 1)
  | TBrackC => if open - 1 <=? 1 then Some ts else next (open - 1)
  | TEOF => Some ts
  | _ => next open
  end.

(* error exit after a recover + p.Peek() for the Subject *)
Definition after_recover (o : option (list jtoken)) (ds : list Z) : pres (option jvalue) :=
  match o with
  | None => Panic
  | Some [] => Panic
  | Some ts => Res None ds ts
  end.

(* ---- parseObject / parseArray, parameterised by parseValue ----------------- *)

Section Containers.
  Variable pv : list jtoken -> pres jvalue.   (* parseValue at the next nesting level *)

  (* the Token: loop of parseObject; attrs and diags are the Go variables *)
  Fixpoint obj_loop (g : nat) (ts : list jtoken) (attrs : list (list Z * jvalue)) (diags : list Z)
    : pres (option jvalue) :=
    let close ts :=
      match read ts with
      | None => Panic
      | Some (_, rest) => Res (Some (JObj attrs)) diags rest
      end in
    match g with O => Fuel | S g' =>
    match ts with
    | [] => Panic
    | t0 :: _ =>
      if jtype_eqb (tty t0) TBraceC then close ts
      else
      match pv ts with
      | Fuel => Fuel | Panic => Panic
      | Res key kd ts1 =>
        let diags := diags ++ kd in
        match key with
        | JStr k =>
          match read ts1 with
          | None => Panic
          | Some (colon, ts2) =>
            if negb (jtype_eqb (tty colon) TColon) then
              after_recover (obj_recover colon ts2 1)
                (diags ++ [if jtype_eqb (tty colon) TBraceC || jtype_eqb (tty colon) TComma
                           then DMissingObjValue else DMissingColon])
            else
            match pv ts2 with
            | Fuel => Fuel | Panic => Panic
            | Res v vd ts3 =>
              let diags := diags ++ vd in
              let attrs' := attrs ++ [(k, v)] in
              match ts3 with
              | [] => Panic
              | t3 :: _ =>
                match tty t3 with
                | TComma =>
                    match read ts3 with
                    | None => Panic
                    | Some (_, ts4) =>
                        match ts4 with
                        | [] => Panic
                        | t4 :: _ =>
                            if jtype_eqb (tty t4) TBraceC
                            then Res None (diags ++ [DTrailingCommaObj]) ts4
                            else obj_loop g' ts4 attrs' diags
                        end
                    end
                | TEOF => Res None (diags ++ [DUnclosed]) ts3
                | TBrackC =>
                    match read ts3 with
                    | None => Panic
                    | Some (_, []) => Panic
                    | Some (_, ts4) => Res None (diags ++ [DMismatchedBraces]) ts4
                    end
                | TBraceC =>
                    match read ts3 with
                    | None => Panic
                    | Some (_, rest) => Res (Some (JObj attrs')) diags rest
                    end
                | _ =>
                    match read ts3 with
                    | None => Panic
                    | Some (t, ts4) => after_recover (obj_recover t ts4 1) (diags ++ [DMissingComma])
                    end
                end
              end
            end
          end
        | _ => Res None (diags ++ [DInvalidPropName]) ts1
        end
      end
    end end.

  (* parseObject *)
  Definition parse_object (ts : list jtoken) : pres (option jvalue) :=
    match read ts with
    | None => Panic
    | Some (_, ts1) => obj_loop (S (length ts1)) ts1 [] []
    end.

  (* the Token: loop of parseArray *)
  Fixpoint arr_loop (g : nat) (ts : list jtoken) (vals : list jvalue) (diags : list Z)
    : pres (option jvalue) :=
    match g with O => Fuel | S g' =>
    match ts with
    | [] => Panic
    | t0 :: _ =>
      if jtype_eqb (tty t0) TBrackC then
        match read ts with
        | None => Panic
        | Some (_, rest) => Res (Some (JArr vals)) diags rest
        end
      else
      match pv ts with
      | Fuel => Fuel | Panic => Panic
      | Res v vd ts1 =>
        let diags := diags ++ vd in
        let vals' := vals ++ [v] in
        match ts1 with
        | [] => Panic
        | t1 :: _ =>
          match tty t1 with
          | TComma =>
              match read ts1 with
              | None => Panic
              | Some (_, ts2) =>
                  match ts2 with
                  | [] => Panic
                  | t2 :: _ =>
                      if jtype_eqb (tty t2) TBrackC
                      then Res None (diags ++ [DTrailingCommaArr]) ts2
                      else arr_loop g' ts2 vals' diags
                  end
              end
          | TColon =>
              match read ts1 with
              | None => Panic
              | Some (t, ts2) => after_recover (arr_recover t ts2 1) (diags ++ [DInvalidArrayValue])
              end
          | TEOF =>
              match read ts1 with
              | None => Panic
              | Some (t, ts2) =>
                  match arr_recover t ts2 1 with
                  | None => Panic
                  | Some ts3 => Res None (diags ++ [DUnclosed]) ts3
                  end
              end
          | TBraceC =>
              match read ts1 with
              | None => Panic
              | Some (t, ts2) => after_recover (arr_recover t ts2 1) (diags ++ [DMismatchedBrackets])
              end
          | TBrackC =>
              match read ts1 with
              | None => Panic
              | Some (_, rest) => Res (Some (JArr vals')) diags rest
              end
          | _ =>
              match read ts1 with
              | None => Panic
              | Some (t, ts2) => after_recover (arr_recover t ts2 1) (diags ++ [DMissingComma])
              end
          end
        end
      end
    end end.

  (* parseArray *)
  Definition parse_array (ts : list jtoken) : pres (option jvalue) :=
    match read ts with
    | None => Panic
    | Some (_, ts1) => arr_loop (S (length ts1)) ts1 [] []
    end.
End Containers.

(* parseValue's wrapInvalid *)
Definition wrap_invalid (r : pres (option jvalue)) : pres jvalue :=
  match r with
  | Res (Some n) ds rest => Res n ds rest
  | Res None ds rest => Res JInvalid ds rest
  | Fuel => Fuel
  | Panic => Panic
  end.

(* parseValue *)
Fixpoint parse_value (fuel : nat) (ts : list jtoken) : pres jvalue :=
  match fuel with O => Fuel | S f =>
    match ts with
    | [] => Panic
    | tok :: _ =>
        match tty tok with
        | TBraceO => wrap_invalid (parse_object (parse_value f) ts)
        | TBrackO => wrap_invalid (parse_array (parse_value f) ts)
        | TNumber => wrap_invalid (parse_number ts)
        | TString => wrap_invalid (parse_string ts)
        | TKeyword => wrap_invalid (parse_keyword ts)
        | TBraceC => Res JInvalid [DMissingJSONValue] ts
        | TBrackC => Res JInvalid [DMissingArrayElem] ts
        | TEOF => Res JInvalid [DMissingValue] ts
        | _ => Res JInvalid [DInvalidStart] ts
        end
    end
  end.

(* ---- entry points ------------------------------------------------------------ *)

Inductive jresult :=
| JRes (v : jvalue) (ds : list Z)
| JFuel
| JPanic.

(* parseExpression / parseFileContent (identical bodies) on a token list *)
Definition parse_tokens (ts : list jtoken) : jresult :=
  match parse_value (S (length ts)) ts with
  | Res v [] [] => JPanic
  | Res v [] (t :: _) => if is_eof t then JRes v [] else JRes v [DExtraneous]
  | Res v ds _ => JRes v ds
  | Fuel => JFuel
  | Panic => JPanic
  end.

(* json.ParseExpression *)
Definition jparse (bs : list Z) : jresult := parse_tokens (jscan bs).

(* json.Parse: the root must be an object or an array *)
Definition jparse_file (bs : list Z) : jresult :=
  match jparse bs with
  | JRes v ds =>
      match v with
      | JObj _ | JArr _ => JRes v ds
      | _ => JRes v (ds ++ [DRootNotObject])
      end
  | r => r
  end.

Definition accepted (r : jresult) : bool :=
  match r with JRes _ [] => true | _ => false end.
