(* Json/JsonCheck.v — correspondence checker for the JSON syntax model, run with
   vm_compute from generated case files (harness/cmd/c13).

   One case = what the harness observed on the real code for one input:
     c_input   input bytes, hex
     c_toks    json.scan (hook VerifScan): (tokenType rune, start byte, end byte)
     c_diags   json.ParseExpression: the Summary of every diagnostic, as the
               codes of Json/Parser.v, in order ([] = accepted)
     c_file_ok json.Parse returned no error diagnostics
     c_everr   expr.Value(nil) returned error diagnostics (only if accepted)
     c_val     expr.Value(nil) canonicalised (only if accepted)
     c_nf      the NFC normal form (hex) of every property name (hex) of the input
               that is not already in NFC, computed by the harness with
               golang.org/x/text/unicode/norm directly on the names as encoding/json
               decodes them - not through hcl.  Property names are HCL strings
               (Literal.value_of_nf): names with the same normal form are duplicates.

   check_json_cases : indices of the cases where the model (Scanner.jscan,
   Parser.jparse / jparse_file, Literal.value_of) disagrees with the observation.

   strict_disagree : the ORACLE part the harness cannot compute itself.  For
   each case the strict RFC 8259 recogniser Rfc8259.json_text_dec (proved sound
   and complete w.r.t. the relation JsonText) is compared with Go's observed
   acceptance, and its value (through Literal.value_of) with Go's value.  The
   result lists (case index, kind) for every disagreement:
     1  invalid-utf8-in-string   Go accepts, not a JSON text, input is not valid UTF-8
                                 (fixed in /repo 0784545: must not occur any more)
     2  accepts-non-json         Go accepts, not a JSON text (any other reason)
     3  rejects-valid-json       Go rejects a JSON text (any other reason; this
                                 includes the former kind 4, grapheme-prepend,
                                 fixed in /repo 97334cf)
     5  rejects-valid-json-number-exponent
                                 Go rejects a JSON text one of whose numbers
                                 big.ParseFloat refuses (exponent out of range)
                                 with "Invalid JSON number" diagnostics ONLY;
                                 known finding of a pinned dependency
     6  literal-mapping-differs-from-reference
                                 both accept, but Go's Value(nil) is not the
                                 spec mapping of the reference's value
   Case files print it as [strict] : list (Z * Z); bin/check treats every entry
   as a direct-oracle failure of that Kind. *)
From Coq Require Import String Ascii.
From HclV Require Import Base.Prelude Json.Rfc8259 Json.Scanner Json.Parser Json.Literal.
Open Scope Z_scope.
Open Scope list_scope.

(* Go's literal value, canonical *)
Inductive gval :=
| GStr (hex : string)
| GStrNfc                         (* cty NFC-normalised the string: content not compared *)
| GNum (num den : Z)              (* exact value of the big.Float, den > 0 *)
| GNumInexact                     (* rounded / infinite: value not compared *)
| GBool (b : bool)
| GNull
| GTuple (vs : list gval)
| GObj (attrs : list (string * gval))   (* names hex; order irrelevant (Go map) *)
| GDyn.

Record jcase := mkCase {
  c_input : string;
  c_toks : list (Z * Z * Z);
  c_diags : list Z;
  c_file_ok : bool;
  c_everr : bool;
  c_val : gval;
  c_nf : list (string * string)
}.

(* the normalisation of the case: the table on the names it lists, the identity elsewhere
   (a name absent from the table is in NFC already) *)
Fixpoint nf_tbl (t : list (list Z * list Z)) (k : list Z) : list Z :=
  match t with
  | [] => k
  | (a, b) :: r => if zlist_eqb k a then b else nf_tbl r k
  end.

Definition case_nf (c : jcase) : list Z -> list Z :=
  nf_tbl (map (fun p => (unhex (fst p), unhex (snd p))) (c_nf c)).

Fixpoint lookup (k : list Z) (l : list (list Z * lvalue)) : option lvalue :=
  match l with
  | [] => None
  | (k', v) :: r => if zlist_eqb k k' then Some v else lookup k r
  end.

(* m * 10^e = n / d *)
Definition num_match (m e n d : Z) : bool :=
  if m =? 0 then n =? 0
  else if 100000 <? Z.abs e then false
  else if 0 <=? e then m * 10 ^ e * d =? n
  else m * d =? n * 10 ^ (- e).

Fixpoint gmatch (g : gval) (l : lvalue) : bool :=
  match g, l with
  | GStr h, LString s => zlist_eqb (unhex h) s
  | GStrNfc, LString _ => true
  | GNum n d, LNumber m e => num_match m e n d
  | GNumInexact, LNumber _ _ => true
  | GBool a, LBool b => Bool.eqb a b
  | GNull, LNullDyn => true
  | GTuple gs, LTuple ls =>
      (fix go (gs : list gval) (ls : list lvalue) : bool :=
         match gs, ls with
         | [], [] => true
         | g :: gr, l :: lr => gmatch g l && go gr lr
         | _, _ => false
         end) gs ls
  | GObj gattrs, LObject lattrs =>
      Nat.eqb (length gattrs) (length lattrs) &&
      (fix go (gs : list (string * gval)) : bool :=
         match gs with
         | [] => true
         | (k, g) :: gr =>
             match lookup (unhex k) lattrs with
             | Some l => gmatch g l && go gr
             | None => false
             end
         end) gattrs
  | GDyn, LDynUnknown => true
  | _, _ => false
  end.

Definition tok_sig (t : jtoken) : Z * Z * Z := (jtype_code (tty t), tstart t, tend t).

Definition sig_eqb (a b : Z * Z * Z) : bool :=
  let '(a1, a2, a3) := a in let '(b1, b2, b3) := b in
  (a1 =? b1) && (a2 =? b2) && (a3 =? b3).

(* the slice of the input a token claims must be its bytes *)
Definition tok_bytes_ok (bs : list Z) (t : jtoken) : bool :=
  zlist_eqb (firstn (length (tbytes t)) (skipn (Z.to_nat (tstart t)) bs)) (tbytes t)
  && (tend t =? tstart t + zlen (tbytes t)).

Definition check_json_case (c : jcase) : bool :=
  let bs := unhex (c_input c) in
  let ts := jscan bs in
  list_eqb sig_eqb (map tok_sig ts) (c_toks c)
  && forallb (tok_bytes_ok bs) ts
  && match jparse bs with
     | JRes v ds =>
         zlist_eqb ds (c_diags c)
         && Bool.eqb (accepted (jparse_file bs)) (c_file_ok c)
         && match ds with
            | [] => match value_of_nf (case_nf c) v with
                    | LError => c_everr c
                    | LOk l => negb (c_everr c) && gmatch (c_val c) l
                    end
            | _ => true
            end
     | _ => false
     end.

Definition check_json_cases (cs : list jcase) : list Z := failing check_json_case cs.

(* ---- the strict-RFC oracle --------------------------------------------------- *)

Definition has_bad_exponent (bs : list Z) : bool :=
  existsb (fun t => jtype_eqb (tty t) TNumber && json_number_ok (tbytes t) && negb (big_parse_ok (tbytes t)))
          (jscan bs).

(* Kind 5 is a KNOWN finding, so it must not absorb other rejections: a text that merely CONTAINS such a
   number but is rejected for another reason stays kind 3.  Go's diagnostics must be "Invalid JSON number"
   and nothing else, at most one per number big.ParseFloat refuses. *)
Definition only_number_diags (c : jcase) : bool :=
  match c_diags c with
  | [] => false
  | ds => forallb (fun d => d =? DInvalidNumber) ds
          && (Z.of_nat (length ds) <=?
              Z.of_nat (length (filter (fun t => jtype_eqb (tty t) TNumber && json_number_ok (tbytes t) && negb (big_parse_ok (tbytes t)))
                                       (jscan (unhex (c_input c))))))
  end.

Definition strict_kind (c : jcase) : Z :=
  let bs := unhex (c_input c) in
  let go_ok := match c_diags c with [] => true | _ => false end in
  match json_text_dec bs, go_ok with
  | None, false => 0
  | None, true => if utf8_valid bs then 2 else 1
  | Some _, false => if has_bad_exponent bs && only_number_diags c then 5 else 3
  | Some v, true =>
      match value_of_nf (case_nf c) v with
      | LError => if c_everr c then 0 else 6
      | LOk l => if negb (c_everr c) && gmatch (c_val c) l then 0 else 6
      end
  end.

Fixpoint strict_from (i : Z) (cs : list jcase) : list (Z * Z) :=
  match cs with
  | [] => []
  | c :: r => let k := strict_kind c in
              if k =? 0 then strict_from (i + 1) r else (i, k) :: strict_from (i + 1) r
  end.

Definition strict_disagree (cs : list jcase) : list (Z * Z) := strict_from 0 cs.
