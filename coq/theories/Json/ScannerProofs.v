(* Json/ScannerProofs.v — facts about the scanner model (Json/Scanner.v):
   totality with fuel = length + 1, fuel monotonicity, tiling (the tokens cover
   the input in order without overlap, gaps are JSON whitespace only), and the
   step lemmas used by the acceptance proofs in Json/ParserProofs.v. *)
From HclV Require Import Base.Prelude Json.Rfc8259 Json.Scanner.

Arguments sc_ws : simpl never.
Arguments sc_digit : simpl never.
Arguments number_byte : simpl never.
Arguments keyword_byte : simpl never.
Arguments is_alphabetical : simpl never.
Arguments byte_can_start_number : simpl never.
Arguments byte_can_start_keyword : simpl never.
Arguments punct_type : simpl never.
Arguments rng : simpl never.
Arguments Z.mul : simpl never.
Arguments Z.add : simpl never.
Arguments Z.sub : simpl never.
Arguments Z.eqb : simpl never.
Arguments Z.ltb : simpl never.
Arguments Z.leb : simpl never.
Arguments Z.of_nat : simpl never.

(* ---- zlen ----------------------------------------------------------------------- *)

Lemma zlen_nil : zlen [] = 0.
Proof. reflexivity. Qed.

Lemma zlen_cons b (l : list Z) : zlen (b :: l) = 1 + zlen l.
Proof. unfold zlen. cbn [length]. lia. Qed.

Lemma zlen_app (a b : list Z) : zlen (a ++ b) = zlen a + zlen b.
Proof. unfold zlen. rewrite app_length. lia. Qed.

Lemma zlen_nonneg (l : list Z) : 0 <= zlen l.
Proof. unfold zlen. lia. Qed.

(* ---- span, skipWhitespace ------------------------------------------------------- *)

Definition head_fails (p : Z -> bool) (bs : list Z) : Prop :=
  match bs with [] => True | b :: _ => p b = false end.

Lemma span_spec p bs : forall t r, span p bs = (t, r) ->
  bs = t ++ r /\ forallb p t = true /\ head_fails p r.
Proof.
  induction bs as [|b u IH]; simpl; intros t r H.
  - inversion H; subst. repeat split.
  - destruct (p b) eqn:E.
    + destruct (span p u) as [t' r'] eqn:Es. inversion H; subst.
      destruct (IH t' r eq_refl) as [H1 [H2 H3]]. repeat split.
      * simpl. f_equal. exact H1.
      * simpl. rewrite E. exact H2.
      * exact H3.
    + inversion H; subst. repeat split. simpl. exact E.
Qed.

Lemma span_app p t rest : forallb p t = true -> head_fails p rest -> span p (t ++ rest) = (t, rest).
Proof.
  induction t as [|b t IH]; simpl; intros Ht Hr.
  - destruct rest as [|c r]; [reflexivity|]. simpl in *. rewrite Hr. reflexivity.
  - apply andb_true_iff in Ht. destruct Ht as [Hb Ht]. rewrite Hb. rewrite (IH Ht Hr). reflexivity.
Qed.

Definition sc_WS (w : list Z) : Prop := forallb sc_ws w = true.

Lemma skip_whitespace_span bs : skip_whitespace bs = span sc_ws bs.
Proof.
  induction bs as [|b u IH]; simpl; [reflexivity|]. destruct (sc_ws b); [|reflexivity].
  rewrite IH. reflexivity.
Qed.

Lemma skip_whitespace_spec bs w r : skip_whitespace bs = (w, r) ->
  bs = w ++ r /\ sc_WS w /\ head_fails sc_ws r.
Proof. rewrite skip_whitespace_span. apply span_spec. Qed.

Lemma skip_whitespace_app w rest : sc_WS w -> head_fails sc_ws rest ->
  skip_whitespace (w ++ rest) = (w, rest).
Proof. rewrite skip_whitespace_span. apply span_app. Qed.

Lemma sc_ws_ws_byte b : sc_ws b = true <-> ws_byte b.
Proof. unfold sc_ws, ws_byte. rewrite !orb_true_iff, !Z.eqb_eq. tauto. Qed.

Lemma sc_WS_WS w : sc_WS w <-> WS w.
Proof.
  unfold sc_WS, WS. rewrite forallb_forall, Forall_forall. split; intros H x Hx.
  - apply sc_ws_ws_byte. apply H. exact Hx.
  - apply sc_ws_ws_byte. apply H. exact Hx.
Qed.

(* ---- scanString decomposes its input -------------------------------------------- *)

Lemma scan_string_loop_split bs : forall esc t r,
  scan_string_loop bs esc = (t, r) -> bs = t ++ r.
Proof.
  induction bs as [|b u IH]; intros esc t r H.
  - simpl in H. inversion H. reflexivity.
  - cbn [scan_string_loop] in H.
    assert (Htake : forall e, (let (t0, r') := scan_string_loop u e in (b :: t0, r')) = (t, r) ->
                              b :: u = t ++ r).
    { intros e Ht. destruct (scan_string_loop u e) as [t0 r'] eqn:E.
      inversion Ht; subst. simpl. f_equal. eapply IH. exact E. }
    destruct (b =? 92); [eapply Htake; exact H|].
    destruct (b =? 34).
    { destruct esc; [eapply Htake; exact H|]. inversion H; subst. reflexivity. }
    destruct (b <? 32); [inversion H; subst; reflexivity|].
    eapply Htake; exact H.
Qed.

Lemma scan_string_split bs t r : scan_string bs = (t, r) -> bs = t ++ r.
Proof.
  unfold scan_string. destruct bs as [|q u]; intro H.
  - inversion H. reflexivity.
  - destruct (scan_string_loop u false) as [t0 r'] eqn:E. inversion H; subst.
    simpl. f_equal. eapply scan_string_loop_split. exact E.
Qed.

Lemma scan_string_nonempty q u t r : scan_string (q :: u) = (t, r) -> exists t', t = q :: t'.
Proof.
  unfold scan_string. destruct (scan_string_loop u false) as [t0 r']. intro H.
  inversion H; subst. eexists. reflexivity.
Qed.

(* ---- one step of scan, as a specification ---------------------------------------- *)

(* What the dispatch of [scan] does at a non-whitespace byte: the token type,
   its bytes and the rest; None for an invalid byte. *)
Definition next_token (r : list Z) : option (jtype * list Z * list Z) :=
  match r with
  | [] => None
  | first :: r' =>
      match punct_type first with
      | Some ty => Some (ty, [first], r')
      | None =>
          if first =? 34 then let (tb, rest) := scan_string r in Some (TString, tb, rest)
          else if byte_can_start_number first then let (tb, rest) := scan_number r in Some (TNumber, tb, rest)
          else if byte_can_start_keyword first then let (tb, rest) := scan_keyword r in Some (TKeyword, tb, rest)
          else None
      end
  end.

Lemma jscan_fuel_unfold f off bs :
  jscan_fuel (S f) off bs =
  match bs with
  | [] => Some [eof_tok off]
  | _ =>
      let (w, r) := skip_whitespace bs in
      let p := off + zlen w in
      match r with
      | [] => Some [eof_tok p]
      | first :: _ =>
          match next_token r with
          | Some (ty, tb, rest) =>
              match jscan_fuel f (p + zlen tb) rest with
              | Some ts => Some (mkTok ty tb p (p + zlen tb) :: ts)
              | None => None
              end
          | None => Some [mkTok TInvalid [first] p (p + 1); eof_tok (p + 1)]
          end
      end
  end.
Proof.
  cbn [jscan_fuel]. destruct bs as [|b0 u0]; [reflexivity|].
  destruct (skip_whitespace (b0 :: u0)) as [w r]. destruct r as [|first r']; [reflexivity|].
  unfold next_token. destruct (punct_type first) as [ty|]; [reflexivity|].
  destruct (first =? 34).
  { destruct (scan_string (first :: r')) as [tb rest]. reflexivity. }
  destruct (byte_can_start_number first).
  { destruct (scan_number (first :: r')) as [tb rest]. reflexivity. }
  destruct (byte_can_start_keyword first).
  { destruct (scan_keyword (first :: r')) as [tb rest]. reflexivity. }
  reflexivity.
Qed.

Lemma span_head p b u t r : p b = true -> span p (b :: u) = (t, r) -> exists t', t = b :: t'.
Proof.
  simpl. intros Hb H. rewrite Hb in H. destruct (span p u) as [t' r']. inversion H; subst.
  eexists. reflexivity.
Qed.

Lemma can_start_number_byte b : byte_can_start_number b = true -> number_byte b = true.
Proof.
  unfold byte_can_start_number, number_byte. intro H.
  repeat (apply orb_true_iff in H; destruct H as [H|H]); rewrite H; repeat rewrite orb_true_r; reflexivity.
Qed.

Lemma can_start_keyword_byte b : byte_can_start_keyword b = true -> keyword_byte b = true.
Proof. unfold byte_can_start_keyword, keyword_byte. intro H. rewrite H. reflexivity. Qed.

(* a token takes at least one byte and splits the input *)
Lemma next_token_split r ty tb rest :
  next_token r = Some (ty, tb, rest) -> r = tb ++ rest /\ tb <> [].
Proof.
  unfold next_token. destruct r as [|first r']; [discriminate|].
  destruct (punct_type first) as [ty'|].
  { intro H; inversion H; subst. split; [reflexivity|discriminate]. }
  destruct (first =? 34).
  { destruct (scan_string (first :: r')) as [tb' rest'] eqn:E. intro H; inversion H; subst.
    split; [apply scan_string_split; exact E|].
    destruct (scan_string_nonempty _ _ _ _ E) as [t' ->]. discriminate. }
  destruct (byte_can_start_number first) eqn:En.
  { unfold scan_number. destruct (span number_byte (first :: r')) as [tb' rest'] eqn:E.
    intro H; inversion H; subst. split; [apply (span_spec _ _ _ _ E)|].
    destruct (span_head _ _ _ _ _ (can_start_number_byte _ En) E) as [t' ->]. discriminate. }
  destruct (byte_can_start_keyword first) eqn:Ek; [|discriminate].
  unfold scan_keyword. destruct (span keyword_byte (first :: r')) as [tb' rest'] eqn:E.
  intro H; inversion H; subst. split; [apply (span_spec _ _ _ _ E)|].
  destruct (span_head _ _ _ _ _ (can_start_keyword_byte _ Ek) E) as [t' ->]. discriminate.
Qed.

(* ---- totality and fuel monotonicity ------------------------------------------------ *)

Lemma jscan_fuel_total : forall f off bs, (length bs < f)%nat -> exists ts, jscan_fuel f off bs = Some ts.
Proof.
  induction f as [|f IH]; intros off bs Hf; [lia|].
  rewrite jscan_fuel_unfold. destruct bs as [|b0 u0]; [eexists; reflexivity|].
  destruct (skip_whitespace (b0 :: u0)) as [w r] eqn:Ew.
  destruct (skip_whitespace_spec _ _ _ Ew) as [Hsplit _].
  cbv zeta. destruct r as [|first r']; [eexists; reflexivity|].
  destruct (next_token (first :: r')) as [[[ty tb] rest]|] eqn:En; [|eexists; reflexivity].
  destruct (next_token_split _ _ _ _ En) as [Hr Htb].
  destruct (IH (off + zlen w + zlen tb) rest) as [ts Hts].
  { assert (L : length (b0 :: u0) = (length w + (length tb + length rest))%nat).
    { rewrite Hsplit, Hr. rewrite !app_length. reflexivity. }
    destruct tb; [congruence|]. simpl in *. lia. }
  rewrite Hts. eexists. reflexivity.
Qed.

Theorem jscan_total bs : exists ts, jscan_opt bs = Some ts.
Proof. apply jscan_fuel_total. lia. Qed.

Lemma jscan_fuel_mono : forall f off bs ts, jscan_fuel f off bs = Some ts ->
  forall f', (f <= f')%nat -> jscan_fuel f' off bs = Some ts.
Proof.
  induction f as [|f IH]; intros off bs ts H f' Hf'; [discriminate|].
  destruct f' as [|f']; [lia|]. rewrite jscan_fuel_unfold in *.
  destruct bs as [|b0 u0]; [exact H|].
  destruct (skip_whitespace (b0 :: u0)) as [w r]. cbv zeta in *.
  destruct r as [|first r']; [exact H|].
  destruct (next_token (first :: r')) as [[[ty tb] rest]|]; [|exact H].
  destruct (jscan_fuel f (off + zlen w + zlen tb) rest) as [ts'|] eqn:E; [|discriminate].
  rewrite (IH _ _ _ E f') by lia. exact H.
Qed.

Lemma jscan_opt_of_fuel f bs ts : jscan_fuel f 0 bs = Some ts -> jscan bs = ts.
Proof.
  intro H. unfold jscan. destruct (jscan_total bs) as [ts' H'].
  rewrite H'. unfold jscan_opt in H'.
  destruct (Nat.le_ge_cases f (S (length bs))) as [L|L].
  - rewrite (jscan_fuel_mono _ _ _ _ H _ L) in H'. inversion H'. reflexivity.
  - rewrite (jscan_fuel_mono _ _ _ _ H' _ L) in H. inversion H. reflexivity.
Qed.

Lemma jscan_spec bs : jscan_opt bs = Some (jscan bs).
Proof. unfold jscan. destruct (jscan_total bs) as [ts H]. rewrite H. reflexivity. Qed.

(* ---- tiling ------------------------------------------------------------------------- *)

(* what the scanner guarantees about the bytes of a token of each type *)
Definition lex_ok (ty : jtype) (tb : list Z) : Prop :=
  match ty with
  | TString => exists r, tb = 34 :: r
  | TNumber => forallb number_byte tb = true
  | TKeyword => forallb keyword_byte tb = true
  | TEOF | TInvalid => False
  | _ => exists b, tb = [b] /\ punct_type b = Some ty
  end.

Lemma punct_type_lex b ty : punct_type b = Some ty -> lex_ok ty [b].
Proof.
  intro H. assert (H' := H). unfold punct_type in H.
  repeat match type of H with
  | (if ?c then _ else _) = _ => destruct c
  end; inversion H; subst; simpl; exists b; split; try reflexivity; exact H'.
Qed.

Lemma next_token_lex r ty tb rest : next_token r = Some (ty, tb, rest) -> lex_ok ty tb.
Proof.
  unfold next_token. destruct r as [|first r']; [discriminate|].
  destruct (punct_type first) as [ty'|] eqn:Ep.
  { intro H; inversion H; subst. apply punct_type_lex. exact Ep. }
  destruct (first =? 34) eqn:E34.
  { destruct (scan_string (first :: r')) as [tb' rest'] eqn:E. intro H; inversion H; subst.
    apply Z.eqb_eq in E34. subst first.
    destruct (scan_string_nonempty _ _ _ _ E) as [t' ->]. simpl. eexists. reflexivity. }
  destruct (byte_can_start_number first).
  { unfold scan_number. destruct (span number_byte (first :: r')) as [tb' rest'] eqn:E.
    intro H; inversion H; subst. simpl. apply (span_spec _ _ _ _ E). }
  destruct (byte_can_start_keyword first); [|discriminate].
  unfold scan_keyword. destruct (span keyword_byte (first :: r')) as [tb' rest'] eqn:E.
  intro H; inversion H; subst. simpl. apply (span_spec _ _ _ _ E).
Qed.

(* Tiled off bs ts: starting at byte offset off, the tokens ts are laid over bs
   in order, each preceded by a (possibly empty) run of whitespace, each with
   the byte range it occupies; an Invalid token ends the scan (the rest of the
   input is not tokenised) and is followed by the synthetic EOF. *)
Inductive Tiled : Z -> list Z -> list jtoken -> Prop :=
| Ti_eof off w : sc_WS w -> Tiled off w [eof_tok (off + zlen w)]
| Ti_invalid off w b rest : sc_WS w -> sc_ws b = false ->
    Tiled off (w ++ b :: rest)
      [mkTok TInvalid [b] (off + zlen w) (off + zlen w + 1); eof_tok (off + zlen w + 1)]
| Ti_tok off w ty tb rest ts : sc_WS w -> tb <> [] -> lex_ok ty tb ->
    Tiled (off + zlen w + zlen tb) rest ts ->
    Tiled off (w ++ tb ++ rest) (mkTok ty tb (off + zlen w) (off + zlen w + zlen tb) :: ts).

Lemma jscan_fuel_tiled : forall f off bs ts, jscan_fuel f off bs = Some ts -> Tiled off bs ts.
Proof.
  induction f as [|f IH]; intros off bs ts H; [discriminate|].
  rewrite jscan_fuel_unfold in H. destruct bs as [|b0 u0].
  { inversion H; subst. replace off with (off + zlen []) at 2 by (rewrite zlen_nil; lia).
    apply Ti_eof. reflexivity. }
  destruct (skip_whitespace (b0 :: u0)) as [w r] eqn:Ew.
  destruct (skip_whitespace_spec _ _ _ Ew) as [Hsplit [Hw Hr]]. rewrite Hsplit. cbv zeta in H.
  destruct r as [|first r'].
  { inversion H; subst. rewrite app_nil_r. apply Ti_eof. exact Hw. }
  destruct (next_token (first :: r')) as [[[ty tb] rest]|] eqn:En.
  - destruct (jscan_fuel f (off + zlen w + zlen tb) rest) as [ts'|] eqn:E; [|discriminate].
    inversion H; subst. destruct (next_token_split _ _ _ _ En) as [Hsp Hne]. rewrite Hsp.
    apply Ti_tok; try assumption.
    + eapply next_token_lex. exact En.
    + apply IH. exact E.
  - inversion H; subst. apply Ti_invalid; [exact Hw|exact Hr].
Qed.

Theorem jscan_tiled bs : Tiled 0 bs (jscan bs).
Proof. apply (jscan_fuel_tiled (S (length bs))). apply jscan_spec. Qed.

(* The same, spelled out: gaps(i) is the whitespace before token i. *)
Fixpoint cover (gaps : list (list Z)) (ts : list jtoken) : list Z :=
  match gaps, ts with
  | g :: gs, t :: ts' => g ++ tbytes t ++ cover gs ts'
  | _, _ => []
  end.

Fixpoint ranges_ok (off : Z) (gaps : list (list Z)) (ts : list jtoken) : Prop :=
  match gaps, ts with
  | g :: gs, t :: ts' =>
      tstart t = off + zlen g /\ tend t = tstart t + zlen (tbytes t) /\ ranges_ok (tend t) gs ts'
  | [], [] => True
  | _, _ => False
  end.

Definition has_invalid (ts : list jtoken) : Prop := exists t, In t ts /\ tty t = TInvalid.

Lemma Tiled_cover off bs ts : Tiled off bs ts ->
  exists gaps tail,
    length gaps = length ts /\ Forall WS gaps /\ bs = cover gaps ts ++ tail /\
    ranges_ok off gaps ts /\ (tail = [] \/ has_invalid ts).
Proof.
  induction 1 as [off w Hw|off w b rest Hw Hb|off w ty tb rest ts Hw Hne Hlex Ht IH].
  - exists [w], []. split; [reflexivity|]. split; [|split; [|split]].
    + repeat constructor. apply sc_WS_WS. exact Hw.
    + simpl. rewrite !app_nil_r. reflexivity.
    + simpl. rewrite zlen_nil. repeat split; lia.
    + left. reflexivity.
  - exists [w; []], rest. split; [reflexivity|]. split; [|split; [|split]].
    + repeat constructor. apply sc_WS_WS. exact Hw.
    + simpl. rewrite <- app_assoc. reflexivity.
    + simpl. rewrite zlen_cons, !zlen_nil. repeat split; lia.
    + right. eexists. split; [left; reflexivity|reflexivity].
  - destruct IH as [gaps [tail [H1 [H2 [H3 [H4 H5]]]]]].
    exists (w :: gaps), tail. split; [|split; [|split; [|split]]].
    + simpl. f_equal. exact H1.
    + constructor; [apply sc_WS_WS; exact Hw|exact H2].
    + simpl. rewrite H3. rewrite <- !app_assoc. reflexivity.
    + simpl. split; [reflexivity|]. split; [reflexivity|]. exact H4.
    + destruct H5 as [H5|[t [Hin Hty]]]; [left; exact H5|].
      right. exists t. split; [right; exact Hin|exact Hty].
Qed.

(* Tokens cover the input in order without overlap; gaps are JSON whitespace
   only; byte ranges are exact; only after an Invalid token is input left over. *)
Theorem jscan_tiling bs :
  exists gaps tail,
    length gaps = length (jscan bs) /\ Forall WS gaps /\
    bs = cover gaps (jscan bs) ++ tail /\ ranges_ok 0 gaps (jscan bs) /\
    (tail = [] \/ has_invalid (jscan bs)).
Proof. apply Tiled_cover. apply jscan_tiled. Qed.

(* the token list ends with EOF and has no EOF before *)
Lemma Tiled_eof off bs ts : Tiled off bs ts ->
  exists pre e, ts = pre ++ [e] /\ tty e = TEOF /\ Forall (fun t => tty t <> TEOF) pre.
Proof.
  induction 1 as [off w Hw|off w b rest Hw Hb|off w ty tb rest ts Hw Hne Hlex Ht IH].
  - exists [], (eof_tok (off + zlen w)). repeat split. constructor.
  - eexists [_], _. repeat split. constructor; [discriminate|constructor].
  - destruct IH as [pre [e [H1 [H2 H3]]]]. subst ts.
    eexists (_ :: pre), e. repeat split; [exact H2|]. constructor; [|exact H3].
    simpl. intro E. rewrite E in Hlex. exact Hlex.
Qed.

Lemma jscan_eof bs :
  exists pre e, jscan bs = pre ++ [e] /\ tty e = TEOF /\ Forall (fun t => tty t <> TEOF) pre.
Proof. eapply Tiled_eof. apply jscan_tiled. Qed.

(* ---- step lemmas (used for completeness of acceptance) --------------------------------- *)

Lemma jscan_skip_ws f off w r : sc_WS w -> head_fails sc_ws r ->
  jscan_fuel f off (w ++ r) = jscan_fuel f (off + zlen w) r.
Proof.
  intros Hw Hr. destruct f as [|f]; [reflexivity|]. rewrite !jscan_fuel_unfold.
  assert (E0 : skip_whitespace r = ([], r)) by (apply (skip_whitespace_app [] r); [reflexivity|exact Hr]).
  destruct (w ++ r) as [|b0 u0] eqn:Ewr.
  { apply app_eq_nil in Ewr. destruct Ewr; subst. rewrite zlen_nil, Z.add_0_r. reflexivity. }
  rewrite <- Ewr. rewrite (skip_whitespace_app _ _ Hw Hr). cbv zeta.
  destruct r as [|first r']; [reflexivity|].
  rewrite E0. cbv zeta. rewrite zlen_nil, Z.add_0_r. reflexivity.
Qed.

Lemma jscan_tok f off r ty tb rest : next_token r = Some (ty, tb, rest) -> head_fails sc_ws r ->
  jscan_fuel (S f) off r =
  match jscan_fuel f (off + zlen tb) rest with
  | Some ts => Some (mkTok ty tb off (off + zlen tb) :: ts)
  | None => None
  end.
Proof.
  intros Hn Hr. rewrite jscan_fuel_unfold.
  assert (E0 : skip_whitespace r = ([], r)) by (apply (skip_whitespace_app [] r); [reflexivity|exact Hr]).
  destruct r as [|first r']; [discriminate|]. rewrite E0. cbv zeta. rewrite Hn.
  rewrite zlen_nil, Z.add_0_r. reflexivity.
Qed.

Lemma jscan_eof_ws f off w : sc_WS w -> jscan_fuel (S f) off w = Some [eof_tok (off + zlen w)].
Proof.
  intro Hw. rewrite jscan_fuel_unfold. destruct w as [|b u].
  - rewrite zlen_nil, Z.add_0_r. reflexivity.
  - rewrite <- (app_nil_r (b :: u)) at 1. rewrite (skip_whitespace_app _ [] Hw I). reflexivity.
Qed.

(* --- scanString on a well-formed string body --- *)

(* a byte that the loop treats by its default case *)
Definition plain (b : Z) : Prop := b <> 92 /\ b <> 34 /\ 32 <= b.

Lemma loop_plain b u esc : plain b ->
  scan_string_loop (b :: u) esc = let (t, r) := scan_string_loop u false in (b :: t, r).
Proof.
  intros [H1 [H2 H3]]. cbn [scan_string_loop].
  replace (b =? 92) with false by (symmetry; apply Z.eqb_neq; exact H1).
  replace (b =? 34) with false by (symmetry; apply Z.eqb_neq; exact H2).
  replace (b <? 32) with false by (symmetry; apply Z.ltb_ge; exact H3).
  reflexivity.
Qed.

Lemma loop_plain_list pre : forall u esc, pre <> [] -> Forall plain pre ->
  scan_string_loop (pre ++ u) esc = let (t, r) := scan_string_loop u false in (pre ++ t, r).
Proof.
  induction pre as [|b pre IH]; intros u esc Hne Hpl; [congruence|].
  inversion Hpl as [|? ? Hb Hpre]; subst. cbn [app] in *.
  rewrite (loop_plain _ _ _ Hb).
  destruct pre as [|b' pre'].
  - cbn [app]. reflexivity.
  - rewrite (IH u false) by (try discriminate; assumption).
    destruct (scan_string_loop u false) as [t r]. reflexivity.
Qed.

Lemma loop_backslash u :
  scan_string_loop (92 :: u) false = let (t, r) := scan_string_loop u true in (92 :: t, r).
Proof. cbn [scan_string_loop]. replace (92 =? 92) with true by reflexivity. reflexivity. Qed.

Lemma loop_escaped c u : esc_letter c ->
  scan_string_loop (c :: u) true = let (t, r) := scan_string_loop u false in (c :: t, r).
Proof.
  intro Hc. destruct (Z.eq_dec c 92) as [->|N92].
  { cbn [scan_string_loop]. replace (92 =? 92) with true by reflexivity. reflexivity. }
  destruct (Z.eq_dec c 34) as [->|N34].
  { cbn [scan_string_loop]. replace (34 =? 92) with false by reflexivity.
    replace (34 =? 34) with true by reflexivity. reflexivity. }
  apply loop_plain. unfold plain. unfold esc_letter in Hc. lia.
Qed.

Lemma loop_escape c u : esc_letter c ->
  scan_string_loop (92 :: c :: u) false = let (t, r) := scan_string_loop u false in (92 :: c :: t, r).
Proof.
  intro Hc. rewrite loop_backslash. rewrite (loop_escaped _ _ Hc).
  destruct (scan_string_loop u false) as [t r]. reflexivity.
Qed.

Lemma Utf8Multi_plain bs : Utf8Multi bs -> Forall plain bs /\ bs <> [].
Proof.
  intro H. inversion H; subst; (split; [|discriminate]); repeat constructor; unfold cont in *; lia.
Qed.

Lemma hexdig_plain h : hexdig h -> plain h.
Proof. unfold hexdig, plain. lia. Qed.

Lemma scan_string_items items rest :
  Forall item_ok items ->
  scan_string_loop (flat_map item_bytes items ++ 34 :: rest) false =
  (flat_map item_bytes items ++ [34], rest).
Proof.
  induction 1 as [|i items Hi His IH].
  - cbn [flat_map app scan_string_loop]. replace (34 =? 92) with false by reflexivity.
    replace (34 =? 34) with true by reflexivity. reflexivity.
  - cbn [flat_map] in *. rewrite <- app_assoc in *.
    destruct i as [bs|c|h1 h2 h3 h4]; cbn [item_bytes] in *; simpl in Hi.
    + destruct Hi as [b Hb H34 H92|bs Hm].
      * rewrite (loop_plain_list [b]); [|discriminate|].
        -- rewrite IH. rewrite <- ?app_assoc. reflexivity.
        -- repeat constructor; lia.
      * destruct (Utf8Multi_plain _ Hm) as [Hpl Hne].
        rewrite (loop_plain_list bs); [|exact Hne|exact Hpl].
        rewrite IH. rewrite <- ?app_assoc. reflexivity.
    + cbn [app] in *. rewrite (loop_escape _ _ Hi). rewrite IH. rewrite <- ?app_assoc. reflexivity.
    + cbn [app] in *. destruct Hi as [G1 [G2 [G3 G4]]].
      rewrite loop_backslash.
      change (117 :: h1 :: h2 :: h3 :: h4 :: flat_map item_bytes items ++ 34 :: rest)
        with ([117; h1; h2; h3; h4] ++ flat_map item_bytes items ++ 34 :: rest) in *.
      rewrite (loop_plain_list [117; h1; h2; h3; h4]); [|discriminate|].
      * rewrite IH. rewrite <- ?app_assoc. reflexivity.
      * repeat constructor; try (apply hexdig_plain; assumption); lia.
Qed.

(* next_token on each kind of well-formed token *)

Lemma next_token_punct c ty rest : punct_type c = Some ty -> next_token (c :: rest) = Some (ty, [c], rest).
Proof. intro H. unfold next_token. rewrite H. reflexivity. Qed.

Lemma next_token_string items rest :
  Forall item_ok items ->
  next_token ((34 :: flat_map item_bytes items ++ [34]) ++ rest)
  = Some (TString, 34 :: flat_map item_bytes items ++ [34], rest).
Proof.
  intros Hi. cbn [app next_token]. replace (punct_type 34) with (@None jtype) by reflexivity.
  replace (34 =? 34) with true by reflexivity. unfold scan_string.
  rewrite <- app_assoc. cbn [app]. rewrite (scan_string_items _ _ Hi). reflexivity.
Qed.

Lemma next_token_number b nb rest :
  b = 45 \/ 48 <= b <= 57 -> forallb number_byte (b :: nb) = true -> head_fails number_byte rest ->
  next_token ((b :: nb) ++ rest) = Some (TNumber, b :: nb, rest).
Proof.
  intros Hb Hn Hr. cbn [app]. unfold next_token.
  assert (Ep : punct_type b = None).
  { unfold punct_type. repeat match goal with |- context [?a =? ?c] =>
      replace (a =? c) with false by (symmetry; apply Z.eqb_neq; lia) end. reflexivity. }
  rewrite Ep. replace (b =? 34) with false by (symmetry; apply Z.eqb_neq; lia).
  assert (Es : byte_can_start_number b = true).
  { unfold byte_can_start_number, sc_digit. destruct Hb as [->|Hb]; [reflexivity|].
    replace (48 <=? b) with true by (symmetry; apply Z.leb_le; lia).
    replace (b <=? 57) with true by (symmetry; apply Z.leb_le; lia).
    rewrite !orb_true_r. reflexivity. }
  rewrite Es. unfold scan_number. change (b :: nb ++ rest) with ((b :: nb) ++ rest).
  rewrite (span_app _ _ _ Hn Hr). reflexivity.
Qed.

Lemma next_token_keyword b kb rest :
  97 <= b <= 122 -> forallb keyword_byte (b :: kb) = true -> head_fails keyword_byte rest ->
  next_token ((b :: kb) ++ rest) = Some (TKeyword, b :: kb, rest).
Proof.
  intros Hb Hn Hr. cbn [app]. unfold next_token.
  assert (Ep : punct_type b = None).
  { unfold punct_type. repeat match goal with |- context [?a =? ?c] =>
      replace (a =? c) with false by (symmetry; apply Z.eqb_neq; lia) end. reflexivity. }
  rewrite Ep. replace (b =? 34) with false by (symmetry; apply Z.eqb_neq; lia).
  assert (Es : byte_can_start_number b = false).
  { unfold byte_can_start_number, sc_digit.
    repeat match goal with |- context [?a =? ?c] =>
      replace (a =? c) with false by (symmetry; apply Z.eqb_neq; lia) end.
    replace (b <=? 57) with false by (symmetry; apply Z.leb_gt; lia).
    rewrite andb_false_r. reflexivity. }
  rewrite Es.
  assert (Ek : byte_can_start_keyword b = true).
  { unfold byte_can_start_keyword, is_alphabetical.
    replace (97 <=? b) with true by (symmetry; apply Z.leb_le; lia).
    replace (b <=? 122) with true by (symmetry; apply Z.leb_le; lia). reflexivity. }
  rewrite Ek. unfold scan_keyword. change (b :: kb ++ rest) with ((b :: kb) ++ rest).
  rewrite (span_app _ _ _ Hn Hr). reflexivity.
Qed.
