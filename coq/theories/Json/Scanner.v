(* Json/Scanner.v — executable model of json/scanner.go (scan, scanString,
   scanNumber, scanKeyword, skipWhitespace, byteCanStartNumber,
   byteCanStartKeyword, isAlphabetical).  Definitions only.  One Gallina function
   per Go function, same order of checks.

   A token is {tty; tbytes; tstart; tend}: type, bytes, byte range [tstart,tend)
   in the scanned buffer.  Line/column arithmetic is out of scope here (C14).

   The scanner is deliberately lax: a number token is any run of [-+.eE0-9], a
   keyword token any run of letters/underscore, a string token runs to the first
   unescaped quote or stops before a control byte / at EOF; an invalid byte
   yields an Invalid token followed by a synthetic EOF; the equals sign is a
   token of its own.

   scanString advances over non-special bytes one grapheme cluster at a time
   (textseg.ScanGraphemeClusters, for the column count) and cuts the cluster
   before the first quote, backslash or control byte inside it.  Only the byte
   range matters here: every byte of a cluster after its first one is therefore
   a byte the default case would consume anyway (resetting `escaping`), so the
   model goes byte by byte.  (Before the cut was added a GCB=Prepend character
   glued the closing quote to itself; finding fixed in /repo 97334cf.)  The
   token stream is compared with the real scanner on every run. *)
From HclV Require Import Base.Prelude.

Inductive jtype :=
| TBraceO | TBraceC | TBrackO | TBrackC | TComma | TColon
| TKeyword | TString | TNumber | TEOF | TInvalid | TEquals.

(* the Go tokenType rune values *)
Definition jtype_code (t : jtype) : Z :=
  match t with
  | TBraceO => 123 | TBraceC => 125 | TBrackO => 91 | TBrackC => 93
  | TComma => 44 | TColon => 58 | TKeyword => 75 | TString => 83 | TNumber => 78
  | TEOF => 9220 | TInvalid => 0 | TEquals => 61
  end.

Definition jtype_eqb (a b : jtype) : bool := jtype_code a =? jtype_code b.

Record jtoken := mkTok { tty : jtype; tbytes : list Z; tstart : Z; tend : Z }.

Definition zlen (l : list Z) : Z := Z.of_nat (length l).

Definition eof_tok (p : Z) : jtoken := mkTok TEOF [] p p.

(* ---- skipWhitespace -------------------------------------------------------- *)

Definition sc_ws (b : Z) : bool := (b =? 32) || (b =? 10) || (b =? 13) || (b =? 9).

(* returns (skipped bytes, rest) *)
Fixpoint skip_whitespace (bs : list Z) : list Z * list Z :=
  match bs with
  | b :: r => if sc_ws b then let (w, r') := skip_whitespace r in (b :: w, r') else ([], bs)
  | [] => ([], [])
  end.

(* ---- byte classes ---------------------------------------------------------- *)

Definition sc_digit (b : Z) : bool := (48 <=? b) && (b <=? 57).

(* byteCanStartNumber *)
Definition byte_can_start_number (b : Z) : bool :=
  (b =? 45) || (b =? 43) || (b =? 46) || sc_digit b.

(* the byte set of scanNumber's loop *)
Definition number_byte (b : Z) : bool :=
  (b =? 45) || (b =? 43) || (b =? 46) || (b =? 101) || (b =? 69) || sc_digit b.

(* isAlphabetical *)
Definition is_alphabetical (b : Z) : bool :=
  ((97 <=? b) && (b <=? 122)) || ((65 <=? b) && (b <=? 90)).

(* byteCanStartKeyword *)
Definition byte_can_start_keyword (b : Z) : bool := is_alphabetical b.

Definition keyword_byte (b : Z) : bool := is_alphabetical b || (b =? 95).

(* longest prefix whose bytes satisfy p: (prefix, rest) *)
Fixpoint span (p : Z -> bool) (bs : list Z) : list Z * list Z :=
  match bs with
  | b :: r => if p b then let (t, r') := span p r in (b :: t, r') else ([], bs)
  | [] => ([], [])
  end.

(* scanNumber, scanKeyword: (token bytes, rest) *)
Definition scan_number (bs : list Z) : list Z * list Z := span number_byte bs.
Definition scan_keyword (bs : list Z) : list Z * list Z := span keyword_byte bs.

(* ---- scanString ------------------------------------------------------------ *)

Definition rng (lo hi b : Z) : bool := (lo <=? b) && (b <=? hi).

(* The loop of scanString after the opening quote.  esc = the Go variable
   escaping.  Returns (bytes taken, rest). *)
Fixpoint scan_string_loop (bs : list Z) (esc : bool) : list Z * list Z :=
  match bs with
  | [] => ([], [])
  | b :: r =>
      let take esc' := let (t, r') := scan_string_loop r esc' in (b :: t, r') in
      if b =? 92 then take (negb esc)
      else if b =? 34 then (if esc then take false else ([b], r))
      else if b <? 32 then ([], bs)
      else take false
  end.

(* scanString: buf begins with the opening quote *)
Definition scan_string (bs : list Z) : list Z * list Z :=
  match bs with
  | q :: r => let (t, r') := scan_string_loop r false in (q :: t, r')
  | [] => ([], [])
  end.

(* ---- scan ------------------------------------------------------------------ *)

Definition punct_type (b : Z) : option jtype :=
  if b =? 123 then Some TBraceO else if b =? 125 then Some TBraceC
  else if b =? 91 then Some TBrackO else if b =? 93 then Some TBrackC
  else if b =? 44 then Some TComma else if b =? 58 then Some TColon
  else if b =? 61 then Some TEquals else None.

(* scan with explicit fuel (one unit per token); None = out of fuel *)
Fixpoint jscan_fuel (fuel : nat) (off : Z) (bs : list Z) : option (list jtoken) :=
  match fuel with
  | O => None
  | S f =>
      match bs with
      | [] => Some [eof_tok off]
      | _ =>
          let (w, r) := skip_whitespace bs in
          let p := off + zlen w in
          match r with
          | [] => Some [eof_tok p]
          | first :: r' =>
              let emit ty (tr : list Z * list Z) :=
                let (tb, rest) := tr in
                let e := p + zlen tb in
                match jscan_fuel f e rest with
                | Some ts => Some (mkTok ty tb p e :: ts)
                | None => None
                end in
              match punct_type first with
              | Some ty => emit ty ([first], r')
              | None =>
                  if first =? 34 then emit TString (scan_string r)
                  else if byte_can_start_number first then emit TNumber (scan_number r)
                  else if byte_can_start_keyword first then emit TKeyword (scan_keyword r)
                  else Some [mkTok TInvalid [first] p (p + 1); eof_tok (p + 1)]
              end
          end
      end
  end.

Definition jscan_opt (bs : list Z) : option (list jtoken) := jscan_fuel (S (length bs)) 0 bs.

(* [] only on fuel exhaustion, which ScannerProofs.jscan_total excludes *)
Definition jscan (bs : list Z) : list jtoken :=
  match jscan_opt bs with Some ts => ts | None => [] end.
