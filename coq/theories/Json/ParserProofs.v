(* Json/ParserProofs.v — the acceptance theorems of C13.
     part A  the models of encoding/json's number and string syntax agree with
             the RFC 8259 grammar (json_number_ok / number_value, json_string_decode)
     part B  the structural parser accepts exactly the token grammar TokV
     part C  accept_complete, accept_sound: statements, refutations on the
             faithful model, and the repaired theorems; jparse_total *)
From HclV Require Import Base.Prelude Json.Rfc8259 Json.Rfc8259Proofs Json.Scanner Json.ScannerProofs Json.Parser.

Arguments sc_digit : simpl never.
Arguments rng : simpl never.
Arguments Z.mul : simpl never.
Arguments Z.add : simpl never.
Arguments Z.sub : simpl never.
Arguments Z.opp : simpl never.
Arguments Z.eqb : simpl never.
Arguments Z.ltb : simpl never.
Arguments Z.leb : simpl never.
Arguments Z.of_nat : simpl never.

(* ================================================================================== *)
(* A1. numbers                                                                          *)
(* ================================================================================== *)

Lemma sc_digit_true b : sc_digit b = true <-> digit b.
Proof. unfold sc_digit, digit. rewrite andb_true_iff, !Z.leb_le. tauto. Qed.

Lemma sc_digit_false b : sc_digit b = false <-> ~ digit b.
Proof. apply bool_false_iff. apply sc_digit_true. Qed.

Lemma rng_true lo hi b : rng lo hi b = true <-> lo <= b <= hi.
Proof. unfold rng. rewrite andb_true_iff, !Z.leb_le. tauto. Qed.

Lemma rng_false lo hi b : rng lo hi b = false <-> ~ (lo <= b <= hi).
Proof. apply bool_false_iff. apply rng_true. Qed.

(* evaluate num_step on a byte whose class is known *)
Ltac step_digit d Hd :=
  unfold num_step;
  replace (sc_digit d) with true by (symmetry; apply sc_digit_true; unfold digit in *; lia);
  try replace (rng 49 57 d) with true by (symmetry; apply rng_true; unfold digit in *; lia);
  try replace (d =? 45) with false by (symmetry; apply Z.eqb_neq; unfold digit in *; lia);
  try replace (d =? 48) with false by (symmetry; apply Z.eqb_neq; unfold digit in *; lia);
  try replace (d =? 43) with false by (symmetry; apply Z.eqb_neq; unfold digit in *; lia).

Lemma sm_digits_N1 ds r : Forall digit ds -> num_sm N1 (ds ++ r) = num_sm N1 r.
Proof.
  induction 1 as [|d ds Hd _ IH]; [reflexivity|]. cbn [app num_sm].
  replace (num_step N1 d) with (Some N1); [exact IH|].
  unfold num_step. replace (sc_digit d) with true by (symmetry; apply sc_digit_true; exact Hd). reflexivity.
Qed.

Lemma sm_digits_NDot0 ds r : Forall digit ds -> num_sm NDot0 (ds ++ r) = num_sm NDot0 r.
Proof.
  induction 1 as [|d ds Hd _ IH]; [reflexivity|]. cbn [app num_sm].
  replace (num_step NDot0 d) with (Some NDot0); [exact IH|].
  unfold num_step. replace (sc_digit d) with true by (symmetry; apply sc_digit_true; exact Hd). reflexivity.
Qed.

Lemma sm_digits_NE0 ds r : Forall digit ds -> num_sm NE0 (ds ++ r) = num_sm NE0 r.
Proof.
  induction 1 as [|d ds Hd _ IH]; [reflexivity|]. cbn [app num_sm].
  replace (num_step NE0 d) with (Some NE0); [exact IH|].
  unfold num_step. replace (sc_digit d) with true by (symmetry; apply sc_digit_true; exact Hd). reflexivity.
Qed.

Definition after_int (st : nstate) : Prop := st = N0 \/ st = N1.
Definition before_exp (st : nstate) : Prop := st = N0 \/ st = N1 \/ st = NDot0.

Lemma is_e_true c : c = 101 \/ c = 69 -> (c =? 101) || (c =? 69) = true.
Proof. intros [->| ->]; reflexivity. Qed.

Lemma sm_exp st ep x : ExpPart ep x -> before_exp st -> num_sm st ep = true.
Proof.
  intros He Hst.
  assert (Hfin : num_final st = true) by (destruct Hst as [->|[->| ->]]; reflexivity).
  assert (HE : forall c, c = 101 \/ c = 69 -> num_step st c = Some NE).
  { intros c Hc. assert (Hd : sc_digit c = false) by (apply sc_digit_false; unfold digit; lia).
    assert (H46 : (c =? 46) = false) by (apply Z.eqb_neq; lia).
    destruct Hst as [->|[->| ->]]; unfold num_step; rewrite ?Hd, ?H46, (is_e_true _ Hc); reflexivity. }
  destruct He as [|c d ds Hc Hds|c d ds Hc Hds|c d ds Hc Hds].
  - exact Hfin.
  - cbn [num_sm]. rewrite (HE _ Hc). inversion Hds as [|? ? Hd Hds']; subst.
    cbn [num_sm]. replace (num_step NE d) with (Some NE0).
    + rewrite <- (app_nil_r ds). rewrite (sm_digits_NE0 _ _ Hds'). reflexivity.
    + unfold num_step.
      replace (sc_digit d) with true by (symmetry; apply sc_digit_true; exact Hd).
      replace ((d =? 43) || (d =? 45)) with false; [reflexivity|].
      symmetry. apply orb_false_iff. split; apply Z.eqb_neq; unfold digit in Hd; lia.
  - cbn [num_sm]. rewrite (HE _ Hc). inversion Hds as [|? ? Hd Hds']; subst.
    cbn [num_sm]. replace (num_step NE 43) with (Some NESign) by reflexivity.
    cbn [num_sm]. replace (num_step NESign d) with (Some NE0).
    + rewrite <- (app_nil_r ds). rewrite (sm_digits_NE0 _ _ Hds'). reflexivity.
    + unfold num_step. replace (sc_digit d) with true by (symmetry; apply sc_digit_true; exact Hd). reflexivity.
  - cbn [num_sm]. rewrite (HE _ Hc). inversion Hds as [|? ? Hd Hds']; subst.
    cbn [num_sm]. replace (num_step NE 45) with (Some NESign) by reflexivity.
    cbn [num_sm]. replace (num_step NESign d) with (Some NE0).
    + rewrite <- (app_nil_r ds). rewrite (sm_digits_NE0 _ _ Hds'). reflexivity.
    + unfold num_step. replace (sc_digit d) with true by (symmetry; apply sc_digit_true; exact Hd). reflexivity.
Qed.

Lemma sm_frac st fp fds ep x : FracPart fp fds -> ExpPart ep x -> after_int st -> num_sm st (fp ++ ep) = true.
Proof.
  intros Hf He Hst. destruct Hf as [|d ds Hds].
  - apply (sm_exp _ _ _ He). destruct Hst as [->| ->]; unfold before_exp; tauto.
  - cbn [app num_sm]. replace (num_step st 46) with (Some NDot) by (destruct Hst as [->| ->]; reflexivity).
    inversion Hds as [|? ? Hd Hds']; subst. cbn [num_sm].
    replace (num_step NDot d) with (Some NDot0).
    + rewrite (sm_digits_NDot0 _ _ Hds'). apply (sm_exp _ _ _ He). unfold before_exp; tauto.
    + unfold num_step. replace (sc_digit d) with true by (symmetry; apply sc_digit_true; exact Hd). reflexivity.
Qed.

Lemma sm_int st ip r : IntPart ip -> st = NBegin \/ st = NNeg ->
  exists st', after_int st' /\ num_sm st (ip ++ r) = num_sm st' r.
Proof.
  intros Hi Hst. destruct Hi as [|d ds Hd Hds].
  - exists N0. split; [left; reflexivity|]. destruct Hst as [->| ->]; reflexivity.
  - exists N1. split; [right; reflexivity|]. cbn [app num_sm].
    replace (num_step st d) with (Some N1).
    + apply sm_digits_N1. exact Hds.
    + destruct Hst as [->| ->]; unfold num_step;
        replace (rng 49 57 d) with true by (symmetry; apply rng_true; lia);
        replace (d =? 48) with false by (symmetry; apply Z.eqb_neq; lia);
        try replace (d =? 45) with false by (symmetry; apply Z.eqb_neq; lia); reflexivity.
Qed.

Lemma json_number_ok_complete nb m e : Number nb m e -> json_number_ok nb = true.
Proof.
  unfold json_number_ok. intros [ip fp fds ep x Hi Hf He|ip fp fds ep x Hi Hf He].
  - destruct (sm_int NBegin ip (fp ++ ep) Hi (or_introl eq_refl)) as [st' [Hst' E]].
    rewrite E. eapply sm_frac; eassumption.
  - cbn [num_sm]. replace (num_step NBegin 45) with (Some NNeg) by reflexivity.
    destruct (sm_int NNeg ip (fp ++ ep) Hi (or_intror eq_refl)) as [st' [Hst' E]].
    rewrite E. eapply sm_frac; eassumption.
Qed.

(* --- inversion of the state machine --- *)

Lemma num_step_digit_cases st c st' : num_step st c = Some st' -> True.
Proof. trivial. Qed.

Lemma sm_NE0_inv bs : num_sm NE0 bs = true -> Forall digit bs.
Proof.
  induction bs as [|c r IH]; intro H; [constructor|]. cbn [num_sm] in H.
  unfold num_step in H. destruct (sc_digit c) eqn:Ed; [|discriminate].
  constructor; [apply sc_digit_true; exact Ed|apply IH; exact H].
Qed.

Lemma sm_NESign_inv bs : num_sm NESign bs = true -> exists d ds, bs = d :: ds /\ Forall digit (d :: ds).
Proof.
  destruct bs as [|c r]; intro H; [discriminate|]. cbn [num_sm] in H.
  unfold num_step in H. destruct (sc_digit c) eqn:Ed; [|discriminate].
  exists c, r. split; [reflexivity|]. constructor; [apply sc_digit_true; exact Ed|apply sm_NE0_inv; exact H].
Qed.

Lemma sm_NE_inv c bs : c = 101 \/ c = 69 -> num_sm NE bs = true -> exists x, ExpPart (c :: bs) x.
Proof.
  intros Hc H. destruct bs as [|s r]; [discriminate|]. cbn [num_sm] in H. unfold num_step in H.
  destruct ((s =? 43) || (s =? 45)) eqn:Es.
  - destruct (sm_NESign_inv _ H) as [d [ds [-> Hds]]].
    apply orb_true_iff in Es. destruct Es as [Es|Es]; apply Z.eqb_eq in Es; subst s.
    + eexists. apply Exp_plus; assumption.
    + eexists. apply Exp_minus; assumption.
  - destruct (sc_digit s) eqn:Ed; [|discriminate].
    eexists. apply Exp_plain; [exact Hc|].
    constructor; [apply sc_digit_true; exact Ed|apply sm_NE0_inv; exact H].
Qed.

Lemma is_e_inv c : (c =? 101) || (c =? 69) = true -> c = 101 \/ c = 69.
Proof. intro H. apply orb_true_iff in H. rewrite !Z.eqb_eq in H. exact H. Qed.

Lemma sm_NDot0_inv bs : num_sm NDot0 bs = true ->
  exists ds ep x, bs = ds ++ ep /\ Forall digit ds /\ ExpPart ep x.
Proof.
  induction bs as [|c r IH]; intro H.
  - exists [], [], 0. repeat split; constructor.
  - cbn [num_sm] in H. unfold num_step in H. destruct (sc_digit c) eqn:Ed.
    + destruct (IH H) as [ds [ep [x [-> [Hds He]]]]].
      exists (c :: ds), ep, x. repeat split; [|exact He].
      constructor; [apply sc_digit_true; exact Ed|exact Hds].
    + destruct ((c =? 101) || (c =? 69)) eqn:Ee; [|discriminate].
      destruct (sm_NE_inv c r (is_e_inv _ Ee) H) as [x Hx].
      exists [], (c :: r), x. repeat split; [constructor|exact Hx].
Qed.

Lemma sm_after_int_inv st bs : after_int st -> num_sm st bs = true ->
  exists ds fp fds ep x, bs = ds ++ fp ++ ep /\ Forall digit ds /\ (st = N0 -> ds = []) /\
                         FracPart fp fds /\ ExpPart ep x.
Proof.
  intros Hst. induction bs as [|c r IH]; intro H.
  - exists [], [], [], [], 0. repeat split; constructor.
  - cbn [num_sm] in H.
    assert (Hcases : (st = N1 /\ sc_digit c = true /\ num_sm N1 r = true) \/
                     (c = 46 /\ num_sm NDot r = true) \/
                     ((c = 101 \/ c = 69) /\ num_sm NE r = true)).
    { destruct Hst as [->| ->]; unfold num_step in H.
      - destruct (c =? 46) eqn:E46.
        + right; left. apply Z.eqb_eq in E46. tauto.
        + destruct ((c =? 101) || (c =? 69)) eqn:Ee; [|discriminate].
          right; right. split; [apply is_e_inv; exact Ee|exact H].
      - destruct (sc_digit c) eqn:Ed; [left; tauto|].
        destruct (c =? 46) eqn:E46.
        + right; left. apply Z.eqb_eq in E46. tauto.
        + destruct ((c =? 101) || (c =? 69)) eqn:Ee; [|discriminate].
          right; right. split; [apply is_e_inv; exact Ee|exact H]. }
    destruct Hcases as [[-> [Ed Hr]]|[[-> Hr]|[Hc Hr]]].
    + destruct (IH Hr) as [ds [fp [fds [ep [x [-> [Hds [_ [Hf He]]]]]]]]].
      exists (c :: ds), fp, fds, ep, x. repeat split; try assumption; [|discriminate].
      constructor; [apply sc_digit_true; exact Ed|exact Hds].
    + destruct r as [|d r']; [discriminate|]. cbn [num_sm] in Hr. unfold num_step in Hr.
      destruct (sc_digit d) eqn:Ed; [|discriminate].
      destruct (sm_NDot0_inv _ Hr) as [ds [ep [x [-> [Hds He]]]]].
      exists [], (46 :: d :: ds), (d :: ds), ep, x. repeat split; try assumption; [constructor|].
      constructor. constructor; [apply sc_digit_true; exact Ed|exact Hds].
    + destruct (sm_NE_inv c r Hc Hr) as [x Hx].
      exists [], [], [], (c :: r), x. repeat split; try assumption; constructor.
Qed.

Lemma sm_int_inv st bs : st = NBegin \/ st = NNeg -> (st = NBegin -> match bs with 45 :: _ => False | _ => True end) ->
  num_sm st bs = true ->
  exists ip fp fds ep x, bs = ip ++ fp ++ ep /\ IntPart ip /\ FracPart fp fds /\ ExpPart ep x.
Proof.
  intros Hst Hno H. destruct bs as [|c r]; [destruct Hst as [->| ->]; discriminate|].
  cbn [num_sm] in H.
  assert (Hcases : (c = 48 /\ num_sm N0 r = true) \/ (49 <= c <= 57 /\ num_sm N1 r = true)).
  { destruct Hst as [->| ->]; unfold num_step in H.
    - destruct (c =? 45) eqn:E45.
      { apply Z.eqb_eq in E45. subst c. exfalso. apply (Hno eq_refl). }
      destruct (c =? 48) eqn:E48; [left; apply Z.eqb_eq in E48; tauto|].
      destruct (rng 49 57 c) eqn:Er; [|discriminate]. right. apply rng_true in Er. tauto.
    - destruct (c =? 48) eqn:E48; [left; apply Z.eqb_eq in E48; tauto|].
      destruct (rng 49 57 c) eqn:Er; [|discriminate]. right. apply rng_true in Er. tauto. }
  destruct Hcases as [[-> Hr]|[Hc Hr]].
  - destruct (sm_after_int_inv N0 r (or_introl eq_refl) Hr) as [ds [fp [fds [ep [x [-> [_ [Hz [Hf He]]]]]]]]].
    rewrite (Hz eq_refl). exists [48], fp, fds, ep, x. repeat split; try assumption. constructor.
  - destruct (sm_after_int_inv N1 r (or_intror eq_refl) Hr) as [ds [fp [fds [ep [x [-> [Hds [_ [Hf He]]]]]]]]].
    exists (c :: ds), fp, fds, ep, x. repeat split; try assumption. apply Int_nz; assumption.
Qed.

Lemma json_number_ok_sound nb : json_number_ok nb = true -> exists m e, Number nb m e.
Proof.
  unfold json_number_ok. intro H. destruct nb as [|c r]; [discriminate|].
  destruct (Z.eq_dec c 45) as [->|Hn].
  - cbn [num_sm] in H. replace (num_step NBegin 45) with (Some NNeg) in H by reflexivity.
    destruct (sm_int_inv NNeg r (or_intror eq_refl)) as [ip [fp [fds [ep [x [-> [Hi [Hf He]]]]]]]];
      [discriminate|exact H|].
    eexists. eexists. apply Num_neg; eassumption.
  - destruct (sm_int_inv NBegin (c :: r) (or_introl eq_refl)) as [ip [fp [fds [ep [x [E [Hi [Hf He]]]]]]]];
      [|exact H|].
    + intros _. destruct c as [|p|p]; try exact I.
      repeat (destruct p as [p|p|]; try exact I). congruence.
    + rewrite E. eexists. eexists. apply Num_pos; eassumption.
Qed.

(* --- the value --- *)

Definition dstep (a d : Z) : Z := 10 * a + (d - 48).

Lemma dec_val_fold ds : dec_val ds = fold_left dstep ds 0.
Proof. reflexivity. Qed.

Lemma scan_mantissa_digits ds : forall r m fc dot, Forall digit ds ->
  scan_mantissa (ds ++ r) m fc dot =
  scan_mantissa r (fold_left dstep ds m) (if dot then fc + Z.of_nat (length ds) else fc) dot.
Proof.
  induction ds as [|d ds IH]; intros r m fc dot Hds.
  - cbn [app fold_left length]. destruct dot; [f_equal; lia|reflexivity].
  - inversion Hds as [|? ? Hd Hds']; subst. cbn [app scan_mantissa fold_left length].
    replace (sc_digit d) with true by (symmetry; apply sc_digit_true; exact Hd).
    rewrite (IH _ _ _ _ Hds'). unfold dstep. destruct dot; [f_equal; lia|reflexivity].
Qed.

Lemma scan_mantissa_stop ep x m fc dot : ExpPart ep x -> dot = true \/ True ->
  scan_mantissa ep m fc true = (m, fc, ep).
Proof.
  intros He _. destruct He as [|c d ds Hc _|c d ds Hc _|c d ds Hc _]; [reflexivity| | |];
    cbn [scan_mantissa];
    replace (sc_digit c) with false by (symmetry; apply sc_digit_false; unfold digit; lia);
    cbn [negb andb]; rewrite andb_false_r; reflexivity.
Qed.

Lemma scan_mantissa_stop_nodot ep x m fc : ExpPart ep x ->
  scan_mantissa ep m fc false = (m, fc, ep).
Proof.
  intros He. destruct He as [|c d ds Hc _|c d ds Hc _|c d ds Hc _]; [reflexivity| | |];
    cbn [scan_mantissa];
    replace (sc_digit c) with false by (symmetry; apply sc_digit_false; unfold digit; lia);
    replace (c =? 46) with false by (symmetry; apply Z.eqb_neq; lia); reflexivity.
Qed.

Lemma scan_digits_all ds : forall a, Forall digit ds -> scan_digits ds a = fold_left dstep ds a.
Proof.
  induction ds as [|d ds IH]; intros a Hds; [reflexivity|].
  inversion Hds as [|? ? Hd Hds']; subst. cbn [scan_digits fold_left].
  replace (sc_digit d) with true by (symmetry; apply sc_digit_true; exact Hd).
  apply IH. exact Hds'.
Qed.

Lemma scan_exponent_val ep x : ExpPart ep x -> scan_exponent ep = x.
Proof.
  intros [|c d ds Hc Hds|c d ds Hc Hds|c d ds Hc Hds].
  - reflexivity.
  - unfold scan_exponent. inversion Hds as [|? ? Hd _]; subst.
    assert (N1 : d <> 45) by (unfold digit in Hd; lia). assert (N2 : d <> 43) by (unfold digit in Hd; lia).
    assert (E : forall (A : Type) (a b c' : A), match d :: ds with
                 | 45 :: _ => a | 43 :: _ => b | _ => c' end = c').
    { intros A a b c'. destruct d as [|p|p]; try reflexivity.
      repeat (destruct p as [p|p|]; try reflexivity); congruence. }
    rewrite E. rewrite (scan_digits_all _ _ Hds). reflexivity.
  - unfold scan_exponent. rewrite (scan_digits_all _ _ Hds). reflexivity.
  - unfold scan_exponent. rewrite (scan_digits_all _ _ Hds). reflexivity.
Qed.

Lemma scan_mantissa_dot r m fc : scan_mantissa (46 :: r) m fc false = scan_mantissa r m fc true.
Proof. cbn [scan_mantissa]. replace (sc_digit 46) with false by reflexivity. reflexivity. Qed.

Lemma big_parse_unsigned ip fp fds ep x : IntPart ip -> FracPart fp fds -> ExpPart ep x ->
  scan_mantissa (ip ++ fp ++ ep) 0 0 false = (dec_val (ip ++ fds), Z.of_nat (length fds), ep).
Proof.
  intros Hi Hf He. rewrite (scan_mantissa_digits _ _ _ _ _ (IntPart_digits _ Hi)).
  destruct Hf as [|d ds Hds].
  - cbn [app length]. rewrite (scan_mantissa_stop_nodot _ _ _ _ He).
    rewrite app_nil_r. reflexivity.
  - change ((46 :: d :: ds) ++ ep) with (46 :: ((d :: ds) ++ ep)). rewrite scan_mantissa_dot.
    rewrite (scan_mantissa_digits _ _ _ _ _ Hds).
    rewrite (scan_mantissa_stop _ x _ _ true He (or_introl eq_refl)).
    unfold dec_val. rewrite fold_left_app. rewrite Z.add_0_l. reflexivity.
Qed.

Lemma IntPart_not_minus ip : IntPart ip -> forall (A : Type) (a b : ip ++ [] = ip ++ [] -> A), True.
Proof. trivial. Qed.

Lemma number_value_complete nb m e : Number nb m e -> number_value nb = (m, e).
Proof.
  intros [ip fp fds ep x Hi Hf He|ip fp fds ep x Hi Hf He]; unfold number_value, big_parse.
  - destruct (IntPart_head _ Hi) as [d [ds [E Hd]]]. subst ip.
    assert (Hm : match (d :: ds) ++ fp ++ ep with
                 | 45 :: r => (true, r) | _ => (false, (d :: ds) ++ fp ++ ep) end
                 = (false, (d :: ds) ++ fp ++ ep)).
    { cbn [app]. destruct d as [|p|p]; try reflexivity.
      repeat (destruct p as [p|p|]; try reflexivity). unfold digit in Hd. lia. }
    rewrite Hm. rewrite (big_parse_unsigned _ _ _ _ _ Hi Hf He).
    rewrite (scan_exponent_val _ _ He). reflexivity.
  - cbn [app]. rewrite (big_parse_unsigned _ _ _ _ _ Hi Hf He).
    rewrite (scan_exponent_val _ _ He). reflexivity.
Qed.

(* ================================================================================== *)
(* A2. UTF-8 (utf8.DecodeRune / utf8.Valid models)                                      *)
(* ================================================================================== *)

Inductive FC : Z -> nat -> Z -> Z -> Prop :=
| FC2 p : 194 <= p <= 223 -> FC p 2 128 191
| FC3a : FC 224 3 160 191
| FC3b p : 225 <= p <= 236 -> FC p 3 128 191
| FC3c : FC 237 3 128 159
| FC3d p : 238 <= p <= 239 -> FC p 3 128 191
| FC4a : FC 240 4 144 191
| FC4b p : 241 <= p <= 243 -> FC p 4 128 191
| FC4c : FC 244 4 128 143
| FC0 p : ~ (194 <= p <= 244) -> FC p 0 0 0.

Lemma first_class_FC p : exists sz lo hi, first_class p = (sz, lo, hi) /\ FC p sz lo hi.
Proof.
  unfold first_class.
  destruct (rng 194 223 p) eqn:E1. { apply rng_true in E1. do 3 eexists. split; [reflexivity|apply FC2; lia]. }
  destruct (p =? 224) eqn:E2. { apply Z.eqb_eq in E2. subst. do 3 eexists. split; [reflexivity|apply FC3a]. }
  destruct (rng 225 236 p) eqn:E3. { apply rng_true in E3. do 3 eexists. split; [reflexivity|apply FC3b; lia]. }
  destruct (p =? 237) eqn:E4. { apply Z.eqb_eq in E4. subst. do 3 eexists. split; [reflexivity|apply FC3c]. }
  destruct (rng 238 239 p) eqn:E5. { apply rng_true in E5. do 3 eexists. split; [reflexivity|apply FC3d; lia]. }
  destruct (p =? 240) eqn:E6. { apply Z.eqb_eq in E6. subst. do 3 eexists. split; [reflexivity|apply FC4a]. }
  destruct (rng 241 243 p) eqn:E7. { apply rng_true in E7. do 3 eexists. split; [reflexivity|apply FC4b; lia]. }
  destruct (p =? 244) eqn:E8. { apply Z.eqb_eq in E8. subst. do 3 eexists. split; [reflexivity|apply FC4c]. }
  do 3 eexists. split; [reflexivity|]. apply FC0.
  apply rng_false in E1, E3, E5, E7. apply Z.eqb_neq in E2, E4, E6, E8. lia.
Qed.

Lemma go_rune_len_some bs k : go_rune_len bs = S k ->
  exists mb more, bs = mb ++ more /\ length mb = S k /\ Utf8Multi mb.
Proof.
  unfold go_rune_len. destruct bs as [|p0 r]; [discriminate|].
  destruct (first_class_FC p0) as [sz [lo [hi [E HFC]]]]. rewrite E.
  destruct HFC; try discriminate;
    (destruct r as [|b1 r1]; [discriminate|]);
    match goal with |- context [rng ?lo ?hi b1] => destruct (rng lo hi b1) eqn:R1 end;
    cbn [negb]; try discriminate; apply rng_true in R1; cbn [Nat.eqb].
  - intro Hk; inversion Hk; subst. exists [p; b1], r1. repeat split. apply U2; [lia|unfold cont; lia].
  - destruct r1 as [|b2 r2]; [discriminate|]. destruct (rng 128 191 b2) eqn:R2; [|discriminate].
    apply rng_true in R2. cbn [negb]. intro Hk; inversion Hk; subst.
    exists [224; b1; b2], r2. repeat split. apply U3_E0; [lia|unfold cont; lia].
  - destruct r1 as [|b2 r2]; [discriminate|]. destruct (rng 128 191 b2) eqn:R2; [|discriminate].
    apply rng_true in R2. cbn [negb]. intro Hk; inversion Hk; subst.
    exists [p; b1; b2], r2. repeat split. apply U3_E1; unfold cont; lia.
  - destruct r1 as [|b2 r2]; [discriminate|]. destruct (rng 128 191 b2) eqn:R2; [|discriminate].
    apply rng_true in R2. cbn [negb]. intro Hk; inversion Hk; subst.
    exists [237; b1; b2], r2. repeat split. apply U3_ED; [lia|unfold cont; lia].
  - destruct r1 as [|b2 r2]; [discriminate|]. destruct (rng 128 191 b2) eqn:R2; [|discriminate].
    apply rng_true in R2. cbn [negb]. intro Hk; inversion Hk; subst.
    exists [p; b1; b2], r2. repeat split. apply U3_EE; unfold cont; lia.
  - destruct r1 as [|b2 r2]; [discriminate|]. destruct (rng 128 191 b2) eqn:R2; [|discriminate].
    apply rng_true in R2. cbn [negb]. destruct r2 as [|b3 r3]; [discriminate|].
    destruct (rng 128 191 b3) eqn:R3; [|discriminate]. apply rng_true in R3.
    intro Hk; inversion Hk; subst. exists [240; b1; b2; b3], r3. repeat split. apply U4_F0; unfold cont; lia.
  - destruct r1 as [|b2 r2]; [discriminate|]. destruct (rng 128 191 b2) eqn:R2; [|discriminate].
    apply rng_true in R2. cbn [negb]. destruct r2 as [|b3 r3]; [discriminate|].
    destruct (rng 128 191 b3) eqn:R3; [|discriminate]. apply rng_true in R3.
    intro Hk; inversion Hk; subst. exists [p; b1; b2; b3], r3. repeat split. apply U4_F1; unfold cont; lia.
  - destruct r1 as [|b2 r2]; [discriminate|]. destruct (rng 128 191 b2) eqn:R2; [|discriminate].
    apply rng_true in R2. cbn [negb]. destruct r2 as [|b3 r3]; [discriminate|].
    destruct (rng 128 191 b3) eqn:R3; [|discriminate]. apply rng_true in R3.
    intro Hk; inversion Hk; subst. exists [244; b1; b2; b3], r3. repeat split. apply U4_F4; unfold cont; lia.
Qed.

Ltac rng_yes := repeat match goal with
  | |- context [rng ?lo ?hi ?b] =>
      replace (rng lo hi b) with true by (symmetry; apply rng_true; unfold cont in *; lia)
  end.

Lemma first_class_of p sz lo hi : FC p sz lo hi -> first_class p = (sz, lo, hi).
Proof.
  intro H. destruct (first_class_FC p) as [sz' [lo' [hi' [E H']]]]. rewrite E.
  inversion H; subst; inversion H'; subst; try reflexivity; try lia.
Qed.

Lemma go_rune_len_multi mb rest : Utf8Multi mb -> go_rune_len (mb ++ rest) = length mb.
Proof.
  intro H. inversion H; subst; cbn [app length]; unfold go_rune_len.
  - rewrite (first_class_of b1 2 128 191) by (apply FC2; lia). rng_yes. reflexivity.
  - rewrite (first_class_of 224 3 160 191) by apply FC3a. rng_yes. reflexivity.
  - rewrite (first_class_of b1 3 128 191) by (apply FC3b; lia). rng_yes. reflexivity.
  - rewrite (first_class_of 237 3 128 159) by apply FC3c. rng_yes. reflexivity.
  - rewrite (first_class_of b1 3 128 191) by (apply FC3d; lia). rng_yes. reflexivity.
  - rewrite (first_class_of 240 4 144 191) by apply FC4a. rng_yes. reflexivity.
  - rewrite (first_class_of b1 4 128 191) by (apply FC4b; lia). rng_yes. reflexivity.
  - rewrite (first_class_of 244 4 128 143) by apply FC4c. rng_yes. reflexivity.
Qed.

Lemma Utf8Multi_high mb : Utf8Multi mb -> Forall (fun b => 128 <= b) mb.
Proof. intro H. inversion H; subst; repeat constructor; unfold cont in *; lia. Qed.

Lemma Utf8Multi_cons mb : Utf8Multi mb -> exists c t, mb = c :: t /\ 128 <= c.
Proof. intro H. inversion H; subst; do 2 eexists; (split; [reflexivity|lia]). Qed.

(* pending bytes are skipped *)
Lemma utf8_valid_pending pre more : utf8_valid_from (pre ++ more) (length pre) = utf8_valid_from more 0%nat.
Proof. induction pre as [|c pre IH]; [reflexivity|]. cbn [app length utf8_valid_from]. exact IH. Qed.

Lemma utf8_valid_multi mb more : Utf8Multi mb ->
  utf8_valid_from (mb ++ more) 0%nat = utf8_valid_from more 0%nat.
Proof.
  intro H. destruct (Utf8Multi_cons _ H) as [c [t [E Hc]]].
  assert (G := go_rune_len_multi mb more H). subst mb. cbn [app] in *. cbn [utf8_valid_from].
  replace (c <? 128) with false by (symmetry; apply Z.ltb_ge; lia).
  rewrite G. cbn [length]. apply utf8_valid_pending.
Qed.

Lemma utf8_valid_ascii c more : c < 128 ->
  utf8_valid_from (c :: more) 0%nat = utf8_valid_from more 0%nat.
Proof. intro H. cbn [utf8_valid_from]. replace (c <? 128) with true by (symmetry; apply Z.ltb_lt; lia). reflexivity. Qed.

Lemma utf8_valid_ascii_list pre more : Forall (fun b => b < 128) pre ->
  utf8_valid_from (pre ++ more) 0%nat = utf8_valid_from more 0%nat.
Proof.
  induction 1 as [|c pre Hc _ IH]; [reflexivity|]. cbn [app]. rewrite (utf8_valid_ascii _ _ Hc). exact IH.
Qed.

(* a valid list starts with an ASCII byte or a well-formed multi-byte sequence *)
Lemma utf8_valid_step c r : utf8_valid_from (c :: r) 0%nat = true ->
  (c < 128 /\ utf8_valid_from r 0%nat = true) \/
  (exists mb more, c :: r = mb ++ more /\ Utf8Multi mb /\ utf8_valid_from more 0%nat = true).
Proof.
  intro H. destruct (Z.ltb_spec c 128) as [L|G].
  - left. split; [exact L|]. rewrite (utf8_valid_ascii _ _ L) in H. exact H.
  - right. cbn [utf8_valid_from] in H. replace (c <? 128) with false in H by (symmetry; apply Z.ltb_ge; lia).
    destruct (go_rune_len (c :: r)) as [|k] eqn:E; [discriminate|].
    destruct (go_rune_len_some _ _ E) as [mb [more [E1 [E2 E3]]]].
    exists mb, more. repeat split; try assumption.
    rewrite <- (utf8_valid_multi _ _ E3). rewrite <- E1. cbn [utf8_valid_from].
    replace (c <? 128) with false by (symmetry; apply Z.ltb_ge; lia). rewrite E. exact H.
Qed.

(* mb lies before the first ASCII byte *)
Lemma app_split_high : forall (mb a : list Z) c b more,
  Forall (fun x => 128 <= x) mb -> c < 128 -> mb ++ more = a ++ c :: b ->
  exists a', a = mb ++ a' /\ more = a' ++ c :: b.
Proof.
  induction mb as [|x mb IH]; intros a c b more Hmb Hc E.
  - exists a. split; [reflexivity|exact E].
  - inversion Hmb as [|? ? Hx Hmb']; subst. destruct a as [|y a].
    + cbn [app] in E. inversion E; subst. lia.
    + cbn [app] in E. inversion E; subst. destruct (IH a c b more Hmb' Hc H1) as [a' [E1 E2]].
      exists a'. split; [cbn [app]; f_equal; exact E1|exact E2].
Qed.

(* validity splits at an ASCII byte *)
Lemma utf8_valid_split_n : forall n a c b, (length a <= n)%nat -> c < 128 ->
  utf8_valid_from (a ++ c :: b) 0%nat = true ->
  utf8_valid_from a 0%nat = true /\ utf8_valid_from b 0%nat = true.
Proof.
  induction n as [|n IH]; intros a c b Hn Hc H.
  - destruct a; [|simpl in Hn; lia]. cbn [app] in H. rewrite (utf8_valid_ascii _ _ Hc) in H. split; [reflexivity|exact H].
  - destruct a as [|x a].
    + cbn [app] in H. rewrite (utf8_valid_ascii _ _ Hc) in H. split; [reflexivity|exact H].
    + cbn [app] in H. destruct (utf8_valid_step _ _ H) as [[Hx Hr]|[mb [more [E [Hm Hr]]]]].
      * destruct (IH a c b) as [G1 G2]; [simpl in Hn; lia|exact Hc|exact Hr|].
        split; [rewrite (utf8_valid_ascii _ _ Hx); exact G1|exact G2].
      * destruct (app_split_high mb (x :: a) c b more (Utf8Multi_high _ Hm) Hc (eq_sym E)) as [a' [E1 E2]].
        subst more. destruct (IH a' c b) as [G1 G2]; [|exact Hc|exact Hr|].
        { destruct (Utf8Multi_cons _ Hm) as [c0 [t [-> _]]]. assert (L := f_equal (@length Z) E1).
          rewrite app_length in L. simpl in L, Hn. lia. }
        split; [rewrite E1; rewrite (utf8_valid_multi _ _ Hm); exact G1|exact G2].
Qed.

Lemma utf8_valid_split a c b : c < 128 -> utf8_valid (a ++ c :: b) = true ->
  utf8_valid a = true /\ utf8_valid b = true.
Proof. unfold utf8_valid. apply (utf8_valid_split_n (length a)). lia. Qed.

Lemma utf8_valid_app_n : forall n a b, (length a <= n)%nat ->
  utf8_valid_from a 0%nat = true -> utf8_valid_from b 0%nat = true -> utf8_valid_from (a ++ b) 0%nat = true.
Proof.
  induction n as [|n IH]; intros a b Hn Ha Hb.
  - destruct a; [exact Hb|simpl in Hn; lia].
  - destruct a as [|x a]; [exact Hb|].
    destruct (utf8_valid_step _ _ Ha) as [[Hx Hr]|[mb [more [E [Hm Hr]]]]].
    + cbn [app]. rewrite (utf8_valid_ascii _ _ Hx). apply IH; [simpl in Hn; lia|exact Hr|exact Hb].
    + rewrite E. rewrite <- app_assoc. rewrite (utf8_valid_multi _ _ Hm). apply IH; [|exact Hr|exact Hb].
      destruct (Utf8Multi_cons _ Hm) as [c0 [t [-> _]]]. assert (L := f_equal (@length Z) E).
      rewrite app_length in L. simpl in L, Hn. lia.
Qed.

Lemma utf8_valid_app a b : utf8_valid a = true -> utf8_valid b = true -> utf8_valid (a ++ b) = true.
Proof. unfold utf8_valid. apply (utf8_valid_app_n (length a)). lia. Qed.
