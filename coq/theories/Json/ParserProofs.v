(* Json/ParserProofs.v — the acceptance theorems of C13.
     part A  the models of encoding/json's number and string syntax agree with
             the RFC 8259 grammar (json_number_ok / number_value, json_string_decode)
     part B  the structural parser accepts exactly the token grammar TokV
     part C  accept_sound (full), accept_complete (refuted by big.ParseFloat's
             exponent range; repaired under go_numbers_ok)
     part D  jparse_total; part E  JSON texts are valid UTF-8; part F  literal mapping *)
From HclV Require Import Base.Prelude Json.Rfc8259 Json.Rfc8259Proofs Json.Scanner Json.ScannerProofs Json.Parser.

Arguments sc_digit : simpl never.
Arguments rng : simpl never.
Arguments Z.mul : simpl never.
Arguments Z.add : simpl never.
Arguments Z.sub : simpl never.
Arguments Z.opp : simpl never.
Arguments Z.eqb : simpl never.
Arguments Z.ltb : simpl never.
Arguments Z.leb : simpl never.
Arguments Z.of_nat : simpl never.

(* ================================================================================== *)
(* A1. numbers                                                                          *)
(* ================================================================================== *)

Lemma sc_digit_true b : sc_digit b = true <-> digit b.
Proof. unfold sc_digit, digit. rewrite andb_true_iff, !Z.leb_le. tauto. Qed.

Lemma sc_digit_false b : sc_digit b = false <-> ~ digit b.
Proof. apply bool_false_iff. apply sc_digit_true. Qed.

Lemma rng_true lo hi b : rng lo hi b = true <-> lo <= b <= hi.
Proof. unfold rng. rewrite andb_true_iff, !Z.leb_le. tauto. Qed.

Lemma rng_false lo hi b : rng lo hi b = false <-> ~ (lo <= b <= hi).
Proof. apply bool_false_iff. apply rng_true. Qed.

Lemma sm_digits_N1 ds r : Forall digit ds -> num_sm N1 (ds ++ r) = num_sm N1 r.
Proof.
  induction 1 as [|d ds Hd _ IH]; [reflexivity|]. cbn [app num_sm].
  replace (num_step N1 d) with (Some N1); [exact IH|].
  unfold num_step. replace (sc_digit d) with true by (symmetry; apply sc_digit_true; exact Hd). reflexivity.
Qed.

Lemma sm_digits_NDot0 ds r : Forall digit ds -> num_sm NDot0 (ds ++ r) = num_sm NDot0 r.
Proof.
  induction 1 as [|d ds Hd _ IH]; [reflexivity|]. cbn [app num_sm].
  replace (num_step NDot0 d) with (Some NDot0); [exact IH|].
  unfold num_step. replace (sc_digit d) with true by (symmetry; apply sc_digit_true; exact Hd). reflexivity.
Qed.

Lemma sm_digits_NE0 ds r : Forall digit ds -> num_sm NE0 (ds ++ r) = num_sm NE0 r.
Proof.
  induction 1 as [|d ds Hd _ IH]; [reflexivity|]. cbn [app num_sm].
  replace (num_step NE0 d) with (Some NE0); [exact IH|].
  unfold num_step. replace (sc_digit d) with true by (symmetry; apply sc_digit_true; exact Hd). reflexivity.
Qed.

Definition after_int (st : nstate) : Prop := st = N0 \/ st = N1.
Definition before_exp (st : nstate) : Prop := st = N0 \/ st = N1 \/ st = NDot0.

Lemma is_e_true c : c = 101 \/ c = 69 -> (c =? 101) || (c =? 69) = true.
Proof. intros [->| ->]; reflexivity. Qed.

Lemma sm_exp st ep x : ExpPart ep x -> before_exp st -> num_sm st ep = true.
Proof.
  intros He Hst.
  assert (Hfin : num_final st = true) by (destruct Hst as [->|[->| ->]]; reflexivity).
  assert (HE : forall c, c = 101 \/ c = 69 -> num_step st c = Some NE).
  { intros c Hc. assert (Hd : sc_digit c = false) by (apply sc_digit_false; unfold digit; lia).
    assert (H46 : (c =? 46) = false) by (apply Z.eqb_neq; lia).
    destruct Hst as [->|[->| ->]]; unfold num_step; rewrite ?Hd, ?H46, (is_e_true _ Hc); reflexivity. }
  destruct He as [|c d ds Hc Hds|c d ds Hc Hds|c d ds Hc Hds].
  - exact Hfin.
  - cbn [num_sm]. rewrite (HE _ Hc). inversion Hds as [|? ? Hd Hds']; subst.
    cbn [num_sm]. replace (num_step NE d) with (Some NE0).
    + rewrite <- (app_nil_r ds). rewrite (sm_digits_NE0 _ _ Hds'). reflexivity.
    + unfold num_step.
      replace (sc_digit d) with true by (symmetry; apply sc_digit_true; exact Hd).
      replace ((d =? 43) || (d =? 45)) with false; [reflexivity|].
      symmetry. apply orb_false_iff. split; apply Z.eqb_neq; unfold digit in Hd; lia.
  - cbn [num_sm]. rewrite (HE _ Hc). inversion Hds as [|? ? Hd Hds']; subst.
    cbn [num_sm]. replace (num_step NE 43) with (Some NESign) by reflexivity.
    cbn [num_sm]. replace (num_step NESign d) with (Some NE0).
    + rewrite <- (app_nil_r ds). rewrite (sm_digits_NE0 _ _ Hds'). reflexivity.
    + unfold num_step. replace (sc_digit d) with true by (symmetry; apply sc_digit_true; exact Hd). reflexivity.
  - cbn [num_sm]. rewrite (HE _ Hc). inversion Hds as [|? ? Hd Hds']; subst.
    cbn [num_sm]. replace (num_step NE 45) with (Some NESign) by reflexivity.
    cbn [num_sm]. replace (num_step NESign d) with (Some NE0).
    + rewrite <- (app_nil_r ds). rewrite (sm_digits_NE0 _ _ Hds'). reflexivity.
    + unfold num_step. replace (sc_digit d) with true by (symmetry; apply sc_digit_true; exact Hd). reflexivity.
Qed.

Lemma sm_frac st fp fds ep x : FracPart fp fds -> ExpPart ep x -> after_int st -> num_sm st (fp ++ ep) = true.
Proof.
  intros Hf He Hst. destruct Hf as [|d ds Hds].
  - apply (sm_exp _ _ _ He). destruct Hst as [->| ->]; unfold before_exp; tauto.
  - cbn [app num_sm]. replace (num_step st 46) with (Some NDot) by (destruct Hst as [->| ->]; reflexivity).
    inversion Hds as [|? ? Hd Hds']; subst. cbn [num_sm].
    replace (num_step NDot d) with (Some NDot0).
    + rewrite (sm_digits_NDot0 _ _ Hds'). apply (sm_exp _ _ _ He). unfold before_exp; tauto.
    + unfold num_step. replace (sc_digit d) with true by (symmetry; apply sc_digit_true; exact Hd). reflexivity.
Qed.

Lemma sm_int st ip r : IntPart ip -> st = NBegin \/ st = NNeg ->
  exists st', after_int st' /\ num_sm st (ip ++ r) = num_sm st' r.
Proof.
  intros Hi Hst. destruct Hi as [|d ds Hd Hds].
  - exists N0. split; [left; reflexivity|]. destruct Hst as [->| ->]; reflexivity.
  - exists N1. split; [right; reflexivity|]. cbn [app num_sm].
    replace (num_step st d) with (Some N1).
    + apply sm_digits_N1. exact Hds.
    + destruct Hst as [->| ->]; unfold num_step;
        replace (rng 49 57 d) with true by (symmetry; apply rng_true; lia);
        replace (d =? 48) with false by (symmetry; apply Z.eqb_neq; lia);
        try replace (d =? 45) with false by (symmetry; apply Z.eqb_neq; lia); reflexivity.
Qed.

Lemma json_number_ok_complete nb m e : Number nb m e -> json_number_ok nb = true.
Proof.
  unfold json_number_ok. intros [ip fp fds ep x Hi Hf He|ip fp fds ep x Hi Hf He].
  - destruct (sm_int NBegin ip (fp ++ ep) Hi (or_introl eq_refl)) as [st' [Hst' E]].
    rewrite E. eapply sm_frac; eassumption.
  - cbn [num_sm]. replace (num_step NBegin 45) with (Some NNeg) by reflexivity.
    destruct (sm_int NNeg ip (fp ++ ep) Hi (or_intror eq_refl)) as [st' [Hst' E]].
    rewrite E. eapply sm_frac; eassumption.
Qed.

(* --- inversion of the state machine --- *)

Lemma sm_NE0_inv bs : num_sm NE0 bs = true -> Forall digit bs.
Proof.
  induction bs as [|c r IH]; intro H; [constructor|]. cbn [num_sm] in H.
  unfold num_step in H. destruct (sc_digit c) eqn:Ed; [|discriminate].
  constructor; [apply sc_digit_true; exact Ed|apply IH; exact H].
Qed.

Lemma sm_NESign_inv bs : num_sm NESign bs = true -> exists d ds, bs = d :: ds /\ Forall digit (d :: ds).
Proof.
  destruct bs as [|c r]; intro H; [discriminate|]. cbn [num_sm] in H.
  unfold num_step in H. destruct (sc_digit c) eqn:Ed; [|discriminate].
  exists c, r. split; [reflexivity|]. constructor; [apply sc_digit_true; exact Ed|apply sm_NE0_inv; exact H].
Qed.

Lemma sm_NE_inv c bs : c = 101 \/ c = 69 -> num_sm NE bs = true -> exists x, ExpPart (c :: bs) x.
Proof.
  intros Hc H. destruct bs as [|s r]; [discriminate|]. cbn [num_sm] in H. unfold num_step in H.
  destruct ((s =? 43) || (s =? 45)) eqn:Es.
  - destruct (sm_NESign_inv _ H) as [d [ds [-> Hds]]].
    apply orb_true_iff in Es. destruct Es as [Es|Es]; apply Z.eqb_eq in Es; subst s.
    + eexists. apply Exp_plus; assumption.
    + eexists. apply Exp_minus; assumption.
  - destruct (sc_digit s) eqn:Ed; [|discriminate].
    eexists. apply Exp_plain; [exact Hc|].
    constructor; [apply sc_digit_true; exact Ed|apply sm_NE0_inv; exact H].
Qed.

Lemma is_e_inv c : (c =? 101) || (c =? 69) = true -> c = 101 \/ c = 69.
Proof. intro H. apply orb_true_iff in H. rewrite !Z.eqb_eq in H. exact H. Qed.

Lemma sm_NDot0_inv bs : num_sm NDot0 bs = true ->
  exists ds ep x, bs = ds ++ ep /\ Forall digit ds /\ ExpPart ep x.
Proof.
  induction bs as [|c r IH]; intro H.
  - exists [], [], 0. repeat split; constructor.
  - cbn [num_sm] in H. unfold num_step in H. destruct (sc_digit c) eqn:Ed.
    + destruct (IH H) as [ds [ep [x [-> [Hds He]]]]].
      exists (c :: ds), ep, x. repeat split; [|exact He].
      constructor; [apply sc_digit_true; exact Ed|exact Hds].
    + destruct ((c =? 101) || (c =? 69)) eqn:Ee; [|discriminate].
      destruct (sm_NE_inv c r (is_e_inv _ Ee) H) as [x Hx].
      exists [], (c :: r), x. repeat split; [constructor|exact Hx].
Qed.

Lemma sm_after_int_inv st bs : after_int st -> num_sm st bs = true ->
  exists ds fp fds ep x, bs = ds ++ fp ++ ep /\ Forall digit ds /\ (st = N0 -> ds = []) /\
                         FracPart fp fds /\ ExpPart ep x.
Proof.
  intros Hst. induction bs as [|c r IH]; intro H.
  - exists [], [], [], [], 0. repeat split; constructor.
  - cbn [num_sm] in H.
    assert (Hcases : (st = N1 /\ sc_digit c = true /\ num_sm N1 r = true) \/
                     (c = 46 /\ num_sm NDot r = true) \/
                     ((c = 101 \/ c = 69) /\ num_sm NE r = true)).
    { destruct Hst as [->| ->]; unfold num_step in H.
      - destruct (c =? 46) eqn:E46.
        + right; left. apply Z.eqb_eq in E46. tauto.
        + destruct ((c =? 101) || (c =? 69)) eqn:Ee; [|discriminate].
          right; right. split; [apply is_e_inv; exact Ee|exact H].
      - destruct (sc_digit c) eqn:Ed; [left; tauto|].
        destruct (c =? 46) eqn:E46.
        + right; left. apply Z.eqb_eq in E46. tauto.
        + destruct ((c =? 101) || (c =? 69)) eqn:Ee; [|discriminate].
          right; right. split; [apply is_e_inv; exact Ee|exact H]. }
    destruct Hcases as [[-> [Ed Hr]]|[[-> Hr]|[Hc Hr]]].
    + destruct (IH Hr) as [ds [fp [fds [ep [x [-> [Hds [_ [Hf He]]]]]]]]].
      exists (c :: ds), fp, fds, ep, x. repeat split; try assumption; [|discriminate].
      constructor; [apply sc_digit_true; exact Ed|exact Hds].
    + destruct r as [|d r']; [discriminate|]. cbn [num_sm] in Hr. unfold num_step in Hr.
      destruct (sc_digit d) eqn:Ed; [|discriminate].
      destruct (sm_NDot0_inv _ Hr) as [ds [ep [x [-> [Hds He]]]]].
      exists [], (46 :: d :: ds), (d :: ds), ep, x. repeat split; try assumption; [constructor|].
      constructor. constructor; [apply sc_digit_true; exact Ed|exact Hds].
    + destruct (sm_NE_inv c r Hc Hr) as [x Hx].
      exists [], [], [], (c :: r), x. repeat split; try assumption; constructor.
Qed.

Lemma sm_int_inv st bs : st = NBegin \/ st = NNeg -> (st = NBegin -> match bs with 45 :: _ => False | _ => True end) ->
  num_sm st bs = true ->
  exists ip fp fds ep x, bs = ip ++ fp ++ ep /\ IntPart ip /\ FracPart fp fds /\ ExpPart ep x.
Proof.
  intros Hst Hno H. destruct bs as [|c r]; [destruct Hst as [->| ->]; discriminate|].
  cbn [num_sm] in H.
  assert (Hcases : (c = 48 /\ num_sm N0 r = true) \/ (49 <= c <= 57 /\ num_sm N1 r = true)).
  { destruct Hst as [->| ->]; unfold num_step in H.
    - destruct (c =? 45) eqn:E45.
      { apply Z.eqb_eq in E45. subst c. exfalso. apply (Hno eq_refl). }
      destruct (c =? 48) eqn:E48; [left; apply Z.eqb_eq in E48; tauto|].
      destruct (rng 49 57 c) eqn:Er; [|discriminate]. right. apply rng_true in Er. tauto.
    - destruct (c =? 48) eqn:E48; [left; apply Z.eqb_eq in E48; tauto|].
      destruct (rng 49 57 c) eqn:Er; [|discriminate]. right. apply rng_true in Er. tauto. }
  destruct Hcases as [[-> Hr]|[Hc Hr]].
  - destruct (sm_after_int_inv N0 r (or_introl eq_refl) Hr) as [ds [fp [fds [ep [x [-> [_ [Hz [Hf He]]]]]]]]].
    rewrite (Hz eq_refl). exists [48], fp, fds, ep, x. repeat split; try assumption. constructor.
  - destruct (sm_after_int_inv N1 r (or_intror eq_refl) Hr) as [ds [fp [fds [ep [x [-> [Hds [_ [Hf He]]]]]]]]].
    exists (c :: ds), fp, fds, ep, x. repeat split; try assumption. apply Int_nz; assumption.
Qed.

Lemma json_number_ok_sound nb : json_number_ok nb = true -> exists m e, Number nb m e.
Proof.
  unfold json_number_ok. intro H. destruct nb as [|c r]; [discriminate|].
  destruct (Z.eq_dec c 45) as [->|Hn].
  - cbn [num_sm] in H. replace (num_step NBegin 45) with (Some NNeg) in H by reflexivity.
    destruct (sm_int_inv NNeg r (or_intror eq_refl)) as [ip [fp [fds [ep [x [-> [Hi [Hf He]]]]]]]];
      [discriminate|exact H|].
    eexists. eexists. apply Num_neg; eassumption.
  - destruct (sm_int_inv NBegin (c :: r) (or_introl eq_refl)) as [ip [fp [fds [ep [x [E [Hi [Hf He]]]]]]]];
      [|exact H|].
    + intros _. destruct c as [|p|p]; try exact I.
      repeat (destruct p as [p|p|]; try exact I). congruence.
    + rewrite E. eexists. eexists. apply Num_pos; eassumption.
Qed.

(* --- the value --- *)

Definition dstep (a d : Z) : Z := 10 * a + (d - 48).

Lemma dec_val_fold ds : dec_val ds = fold_left dstep ds 0.
Proof. reflexivity. Qed.

Lemma scan_mantissa_digits ds : forall r m fc dot, Forall digit ds ->
  scan_mantissa (ds ++ r) m fc dot =
  scan_mantissa r (fold_left dstep ds m) (if dot then fc + Z.of_nat (length ds) else fc) dot.
Proof.
  induction ds as [|d ds IH]; intros r m fc dot Hds.
  - cbn [app fold_left length]. destruct dot; [f_equal; lia|reflexivity].
  - inversion Hds as [|? ? Hd Hds']; subst. cbn [app scan_mantissa fold_left length].
    replace (sc_digit d) with true by (symmetry; apply sc_digit_true; exact Hd).
    rewrite (IH _ _ _ _ Hds'). unfold dstep. destruct dot; [f_equal; lia|reflexivity].
Qed.

Lemma scan_mantissa_stop ep x m fc : ExpPart ep x ->
  scan_mantissa ep m fc true = (m, fc, ep).
Proof.
  intros He. destruct He as [|c d ds Hc _|c d ds Hc _|c d ds Hc _]; [reflexivity| | |];
    cbn [scan_mantissa];
    replace (sc_digit c) with false by (symmetry; apply sc_digit_false; unfold digit; lia);
    cbn [negb andb]; rewrite andb_false_r; reflexivity.
Qed.

Lemma scan_mantissa_stop_nodot ep x m fc : ExpPart ep x ->
  scan_mantissa ep m fc false = (m, fc, ep).
Proof.
  intros He. destruct He as [|c d ds Hc _|c d ds Hc _|c d ds Hc _]; [reflexivity| | |];
    cbn [scan_mantissa];
    replace (sc_digit c) with false by (symmetry; apply sc_digit_false; unfold digit; lia);
    replace (c =? 46) with false by (symmetry; apply Z.eqb_neq; lia); reflexivity.
Qed.

Lemma scan_digits_all ds : forall a, Forall digit ds -> scan_digits ds a = fold_left dstep ds a.
Proof.
  induction ds as [|d ds IH]; intros a Hds; [reflexivity|].
  inversion Hds as [|? ? Hd Hds']; subst. cbn [scan_digits fold_left].
  replace (sc_digit d) with true by (symmetry; apply sc_digit_true; exact Hd).
  apply IH. exact Hds'.
Qed.

Lemma scan_exponent_val ep x : ExpPart ep x -> scan_exponent ep = x.
Proof.
  intros [|c d ds Hc Hds|c d ds Hc Hds|c d ds Hc Hds].
  - reflexivity.
  - unfold scan_exponent. inversion Hds as [|? ? Hd _]; subst.
    assert (N1 : d <> 45) by (unfold digit in Hd; lia). assert (N2 : d <> 43) by (unfold digit in Hd; lia).
    assert (E : forall (A : Type) (a b c' : A), match d :: ds with
                 | 45 :: _ => a | 43 :: _ => b | _ => c' end = c').
    { intros A a b c'. destruct d as [|p|p]; try reflexivity.
      repeat (destruct p as [p|p|]; try reflexivity); congruence. }
    rewrite E. rewrite (scan_digits_all _ _ Hds). reflexivity.
  - unfold scan_exponent. rewrite (scan_digits_all _ _ Hds). reflexivity.
  - unfold scan_exponent. rewrite (scan_digits_all _ _ Hds). reflexivity.
Qed.

Lemma scan_mantissa_dot r m fc : scan_mantissa (46 :: r) m fc false = scan_mantissa r m fc true.
Proof. cbn [scan_mantissa]. replace (sc_digit 46) with false by reflexivity. reflexivity. Qed.

Lemma big_parse_unsigned ip fp fds ep x : IntPart ip -> FracPart fp fds -> ExpPart ep x ->
  scan_mantissa (ip ++ fp ++ ep) 0 0 false = (dec_val (ip ++ fds), Z.of_nat (length fds), ep).
Proof.
  intros Hi Hf He. rewrite (scan_mantissa_digits _ _ _ _ _ (IntPart_digits _ Hi)).
  destruct Hf as [|d ds Hds].
  - cbn [app length]. rewrite (scan_mantissa_stop_nodot _ _ _ _ He).
    rewrite app_nil_r. reflexivity.
  - change ((46 :: d :: ds) ++ ep) with (46 :: ((d :: ds) ++ ep)). rewrite scan_mantissa_dot.
    rewrite (scan_mantissa_digits _ _ _ _ _ Hds).
    rewrite (scan_mantissa_stop _ x _ _ He).
    unfold dec_val. rewrite fold_left_app. rewrite Z.add_0_l. reflexivity.
Qed.

Lemma number_value_complete nb m e : Number nb m e -> number_value nb = (m, e).
Proof.
  intros [ip fp fds ep x Hi Hf He|ip fp fds ep x Hi Hf He]; unfold number_value, big_parse.
  - destruct (IntPart_head _ Hi) as [d [ds [E Hd]]]. subst ip.
    assert (Hm : match (d :: ds) ++ fp ++ ep with
                 | 45 :: r => (true, r) | _ => (false, (d :: ds) ++ fp ++ ep) end
                 = (false, (d :: ds) ++ fp ++ ep)).
    { cbn [app]. destruct d as [|p|p]; try reflexivity.
      repeat (destruct p as [p|p|]; try reflexivity). unfold digit in Hd. lia. }
    rewrite Hm. rewrite (big_parse_unsigned _ _ _ _ _ Hi Hf He).
    rewrite (scan_exponent_val _ _ He). reflexivity.
  - cbn [app]. rewrite (big_parse_unsigned _ _ _ _ _ Hi Hf He).
    rewrite (scan_exponent_val _ _ He). reflexivity.
Qed.

(* ================================================================================== *)
(* A2. UTF-8 (utf8.DecodeRune / utf8.Valid models)                                      *)
(* ================================================================================== *)

Inductive FC : Z -> nat -> Z -> Z -> Prop :=
| FC2 p : 194 <= p <= 223 -> FC p 2 128 191
| FC3a : FC 224 3 160 191
| FC3b p : 225 <= p <= 236 -> FC p 3 128 191
| FC3c : FC 237 3 128 159
| FC3d p : 238 <= p <= 239 -> FC p 3 128 191
| FC4a : FC 240 4 144 191
| FC4b p : 241 <= p <= 243 -> FC p 4 128 191
| FC4c : FC 244 4 128 143
| FC0 p : ~ (194 <= p <= 244) -> FC p 0 0 0.

Lemma first_class_FC p : exists sz lo hi, first_class p = (sz, lo, hi) /\ FC p sz lo hi.
Proof.
  unfold first_class.
  destruct (rng 194 223 p) eqn:E1. { apply rng_true in E1. do 3 eexists. split; [reflexivity|apply FC2; lia]. }
  destruct (p =? 224) eqn:E2. { apply Z.eqb_eq in E2. subst. do 3 eexists. split; [reflexivity|apply FC3a]. }
  destruct (rng 225 236 p) eqn:E3. { apply rng_true in E3. do 3 eexists. split; [reflexivity|apply FC3b; lia]. }
  destruct (p =? 237) eqn:E4. { apply Z.eqb_eq in E4. subst. do 3 eexists. split; [reflexivity|apply FC3c]. }
  destruct (rng 238 239 p) eqn:E5. { apply rng_true in E5. do 3 eexists. split; [reflexivity|apply FC3d; lia]. }
  destruct (p =? 240) eqn:E6. { apply Z.eqb_eq in E6. subst. do 3 eexists. split; [reflexivity|apply FC4a]. }
  destruct (rng 241 243 p) eqn:E7. { apply rng_true in E7. do 3 eexists. split; [reflexivity|apply FC4b; lia]. }
  destruct (p =? 244) eqn:E8. { apply Z.eqb_eq in E8. subst. do 3 eexists. split; [reflexivity|apply FC4c]. }
  do 3 eexists. split; [reflexivity|]. apply FC0.
  apply rng_false in E1, E3, E5, E7. apply Z.eqb_neq in E2, E4, E6, E8. lia.
Qed.

Lemma go_rune_len_some bs k : go_rune_len bs = S k ->
  exists mb more, bs = mb ++ more /\ length mb = S k /\ Utf8Multi mb.
Proof.
  unfold go_rune_len. destruct bs as [|p0 r]; [discriminate|].
  destruct (first_class_FC p0) as [sz [lo [hi [E HFC]]]]. rewrite E.
  destruct HFC; try discriminate;
    (destruct r as [|b1 r1]; [discriminate|]);
    match goal with |- context [rng ?lo ?hi b1] => destruct (rng lo hi b1) eqn:R1 end;
    cbn [negb]; try discriminate; apply rng_true in R1; cbn [Nat.eqb].
  - intro Hk; inversion Hk; subst. exists [p; b1], r1. repeat split. apply U2; [lia|unfold cont; lia].
  - destruct r1 as [|b2 r2]; [discriminate|]. destruct (rng 128 191 b2) eqn:R2; [|discriminate].
    apply rng_true in R2. cbn [negb]. intro Hk; inversion Hk; subst.
    exists [224; b1; b2], r2. repeat split. apply U3_E0; [lia|unfold cont; lia].
  - destruct r1 as [|b2 r2]; [discriminate|]. destruct (rng 128 191 b2) eqn:R2; [|discriminate].
    apply rng_true in R2. cbn [negb]. intro Hk; inversion Hk; subst.
    exists [p; b1; b2], r2. repeat split. apply U3_E1; unfold cont; lia.
  - destruct r1 as [|b2 r2]; [discriminate|]. destruct (rng 128 191 b2) eqn:R2; [|discriminate].
    apply rng_true in R2. cbn [negb]. intro Hk; inversion Hk; subst.
    exists [237; b1; b2], r2. repeat split. apply U3_ED; [lia|unfold cont; lia].
  - destruct r1 as [|b2 r2]; [discriminate|]. destruct (rng 128 191 b2) eqn:R2; [|discriminate].
    apply rng_true in R2. cbn [negb]. intro Hk; inversion Hk; subst.
    exists [p; b1; b2], r2. repeat split. apply U3_EE; unfold cont; lia.
  - destruct r1 as [|b2 r2]; [discriminate|]. destruct (rng 128 191 b2) eqn:R2; [|discriminate].
    apply rng_true in R2. cbn [negb]. destruct r2 as [|b3 r3]; [discriminate|].
    destruct (rng 128 191 b3) eqn:R3; [|discriminate]. apply rng_true in R3.
    intro Hk; inversion Hk; subst. exists [240; b1; b2; b3], r3. repeat split. apply U4_F0; unfold cont; lia.
  - destruct r1 as [|b2 r2]; [discriminate|]. destruct (rng 128 191 b2) eqn:R2; [|discriminate].
    apply rng_true in R2. cbn [negb]. destruct r2 as [|b3 r3]; [discriminate|].
    destruct (rng 128 191 b3) eqn:R3; [|discriminate]. apply rng_true in R3.
    intro Hk; inversion Hk; subst. exists [p; b1; b2; b3], r3. repeat split. apply U4_F1; unfold cont; lia.
  - destruct r1 as [|b2 r2]; [discriminate|]. destruct (rng 128 191 b2) eqn:R2; [|discriminate].
    apply rng_true in R2. cbn [negb]. destruct r2 as [|b3 r3]; [discriminate|].
    destruct (rng 128 191 b3) eqn:R3; [|discriminate]. apply rng_true in R3.
    intro Hk; inversion Hk; subst. exists [244; b1; b2; b3], r3. repeat split. apply U4_F4; unfold cont; lia.
Qed.

Ltac rng_yes := repeat match goal with
  | |- context [rng ?lo ?hi ?b] =>
      replace (rng lo hi b) with true by (symmetry; apply rng_true; unfold cont in *; lia)
  end.

Lemma first_class_of p sz lo hi : FC p sz lo hi -> first_class p = (sz, lo, hi).
Proof.
  intro H. destruct (first_class_FC p) as [sz' [lo' [hi' [E H']]]]. rewrite E.
  inversion H; subst; inversion H'; subst; try reflexivity; try lia.
Qed.

Lemma go_rune_len_multi mb rest : Utf8Multi mb -> go_rune_len (mb ++ rest) = length mb.
Proof.
  intro H. inversion H; subst; cbn [app length]; unfold go_rune_len.
  - rewrite (first_class_of b1 2 128 191) by (apply FC2; lia). rng_yes. reflexivity.
  - rewrite (first_class_of 224 3 160 191) by apply FC3a. rng_yes. reflexivity.
  - rewrite (first_class_of b1 3 128 191) by (apply FC3b; lia). rng_yes. reflexivity.
  - rewrite (first_class_of 237 3 128 159) by apply FC3c. rng_yes. reflexivity.
  - rewrite (first_class_of b1 3 128 191) by (apply FC3d; lia). rng_yes. reflexivity.
  - rewrite (first_class_of 240 4 144 191) by apply FC4a. rng_yes. reflexivity.
  - rewrite (first_class_of b1 4 128 191) by (apply FC4b; lia). rng_yes. reflexivity.
  - rewrite (first_class_of 244 4 128 143) by apply FC4c. rng_yes. reflexivity.
Qed.

Lemma Utf8Multi_high mb : Utf8Multi mb -> Forall (fun b => 128 <= b) mb.
Proof. intro H. inversion H; subst; repeat constructor; unfold cont in *; lia. Qed.

Lemma Utf8Multi_cons mb : Utf8Multi mb -> exists c t, mb = c :: t /\ 128 <= c.
Proof. intro H. inversion H; subst; do 2 eexists; (split; [reflexivity|lia]). Qed.

(* pending bytes are skipped *)
Lemma utf8_valid_pending pre more : utf8_valid_from (pre ++ more) (length pre) = utf8_valid_from more 0%nat.
Proof. induction pre as [|c pre IH]; [reflexivity|]. cbn [app length utf8_valid_from]. exact IH. Qed.

Lemma utf8_valid_multi mb more : Utf8Multi mb ->
  utf8_valid_from (mb ++ more) 0%nat = utf8_valid_from more 0%nat.
Proof.
  intro H. destruct (Utf8Multi_cons _ H) as [c [t [E Hc]]].
  assert (G := go_rune_len_multi mb more H). subst mb. cbn [app] in *. cbn [utf8_valid_from].
  replace (c <? 128) with false by (symmetry; apply Z.ltb_ge; lia).
  rewrite G. cbn [length]. apply utf8_valid_pending.
Qed.

Lemma utf8_valid_ascii c more : c < 128 ->
  utf8_valid_from (c :: more) 0%nat = utf8_valid_from more 0%nat.
Proof. intro H. cbn [utf8_valid_from]. replace (c <? 128) with true by (symmetry; apply Z.ltb_lt; lia). reflexivity. Qed.

Lemma utf8_valid_ascii_list pre more : Forall (fun b => b < 128) pre ->
  utf8_valid_from (pre ++ more) 0%nat = utf8_valid_from more 0%nat.
Proof.
  induction 1 as [|c pre Hc _ IH]; [reflexivity|]. cbn [app]. rewrite (utf8_valid_ascii _ _ Hc). exact IH.
Qed.

(* a valid list starts with an ASCII byte or a well-formed multi-byte sequence *)
Lemma utf8_valid_step c r : utf8_valid_from (c :: r) 0%nat = true ->
  (c < 128 /\ utf8_valid_from r 0%nat = true) \/
  (exists mb more, c :: r = mb ++ more /\ Utf8Multi mb /\ utf8_valid_from more 0%nat = true).
Proof.
  intro H. destruct (Z.ltb_spec c 128) as [L|G].
  - left. split; [exact L|]. rewrite (utf8_valid_ascii _ _ L) in H. exact H.
  - right. cbn [utf8_valid_from] in H. replace (c <? 128) with false in H by (symmetry; apply Z.ltb_ge; lia).
    destruct (go_rune_len (c :: r)) as [|k] eqn:E; [discriminate|].
    destruct (go_rune_len_some _ _ E) as [mb [more [E1 [E2 E3]]]].
    exists mb, more. repeat split; try assumption.
    rewrite <- (utf8_valid_multi _ _ E3). rewrite <- E1. cbn [utf8_valid_from].
    replace (c <? 128) with false by (symmetry; apply Z.ltb_ge; lia). rewrite E. exact H.
Qed.

(* mb lies before the first ASCII byte *)
Lemma app_split_high : forall (mb a : list Z) c b more,
  Forall (fun x => 128 <= x) mb -> c < 128 -> mb ++ more = a ++ c :: b ->
  exists a', a = mb ++ a' /\ more = a' ++ c :: b.
Proof.
  induction mb as [|x mb IH]; intros a c b more Hmb Hc E.
  - exists a. split; [reflexivity|exact E].
  - inversion Hmb as [|? ? Hx Hmb']; subst. destruct a as [|y a].
    + cbn [app] in E. inversion E; subst. lia.
    + cbn [app] in E. inversion E; subst. destruct (IH a c b more Hmb' Hc H1) as [a' [E1 E2]].
      exists a'. split; [cbn [app]; f_equal; exact E1|exact E2].
Qed.

(* validity splits at an ASCII byte *)
Lemma utf8_valid_split_n : forall n a c b, (length a <= n)%nat -> c < 128 ->
  utf8_valid_from (a ++ c :: b) 0%nat = true ->
  utf8_valid_from a 0%nat = true /\ utf8_valid_from b 0%nat = true.
Proof.
  induction n as [|n IH]; intros a c b Hn Hc H.
  - destruct a; [|simpl in Hn; lia]. cbn [app] in H. rewrite (utf8_valid_ascii _ _ Hc) in H. split; [reflexivity|exact H].
  - destruct a as [|x a].
    + cbn [app] in H. rewrite (utf8_valid_ascii _ _ Hc) in H. split; [reflexivity|exact H].
    + cbn [app] in H. destruct (utf8_valid_step _ _ H) as [[Hx Hr]|[mb [more [E [Hm Hr]]]]].
      * destruct (IH a c b) as [G1 G2]; [simpl in Hn; lia|exact Hc|exact Hr|].
        split; [rewrite (utf8_valid_ascii _ _ Hx); exact G1|exact G2].
      * destruct (app_split_high mb (x :: a) c b more (Utf8Multi_high _ Hm) Hc (eq_sym E)) as [a' [E1 E2]].
        subst more. destruct (IH a' c b) as [G1 G2]; [|exact Hc|exact Hr|].
        { destruct (Utf8Multi_cons _ Hm) as [c0 [t [-> _]]]. assert (L := f_equal (@length Z) E1).
          rewrite app_length in L. simpl in L, Hn. lia. }
        split; [rewrite E1; rewrite (utf8_valid_multi _ _ Hm); exact G1|exact G2].
Qed.

Lemma utf8_valid_split a c b : c < 128 -> utf8_valid (a ++ c :: b) = true ->
  utf8_valid a = true /\ utf8_valid b = true.
Proof. unfold utf8_valid. apply (utf8_valid_split_n (length a)). lia. Qed.

Lemma utf8_valid_app_n : forall n a b, (length a <= n)%nat ->
  utf8_valid_from a 0%nat = true -> utf8_valid_from b 0%nat = true -> utf8_valid_from (a ++ b) 0%nat = true.
Proof.
  induction n as [|n IH]; intros a b Hn Ha Hb.
  - destruct a; [exact Hb|simpl in Hn; lia].
  - destruct a as [|x a]; [exact Hb|].
    destruct (utf8_valid_step _ _ Ha) as [[Hx Hr]|[mb [more [E [Hm Hr]]]]].
    + cbn [app]. rewrite (utf8_valid_ascii _ _ Hx). apply IH; [simpl in Hn; lia|exact Hr|exact Hb].
    + rewrite E. rewrite <- app_assoc. rewrite (utf8_valid_multi _ _ Hm). apply IH; [|exact Hr|exact Hb].
      destruct (Utf8Multi_cons _ Hm) as [c0 [t [-> _]]]. assert (L := f_equal (@length Z) E).
      rewrite app_length in L. simpl in L, Hn. lia.
Qed.

Lemma utf8_valid_app a b : utf8_valid a = true -> utf8_valid b = true -> utf8_valid (a ++ b) = true.
Proof. unfold utf8_valid. apply (utf8_valid_app_n (length a)). lia. Qed.

(* ================================================================================== *)
(* A3. strings                                                                          *)
(* ================================================================================== *)

Lemma pre_nil o : pre [] o = o.
Proof. destruct o; reflexivity. Qed.

Lemma pre_pre a b o : pre a (pre b o) = pre (a ++ b) o.
Proof. destruct o; simpl; [rewrite app_assoc|]; reflexivity. Qed.

Lemma pre_some_inv p o s : pre p o = Some s -> exists s', o = Some s' /\ s = p ++ s'.
Proof. destruct o as [s'|]; simpl; intro H; inversion H. exists s'. split; reflexivity. Qed.

Lemma pre_some p s : pre p (Some s) = Some (p ++ s).
Proof. reflexivity. Qed.

(* --- hex digits, escapes --- *)

Lemma hex_val_hexv h : hexdig h -> hex_val h = Some (hexv h).
Proof.
  unfold hexdig, hex_val, hexv, rng. intro H.
  destruct H as [H|[H|H]]; bdec.
Qed.

Lemma hex_val_some h v : hex_val h = Some v -> hexdig h /\ v = hexv h.
Proof.
  unfold hex_val. intro H.
  destruct (rng 48 57 h) eqn:E1.
  { apply rng_true in E1. assert (Hd : hexdig h) by (unfold hexdig; lia).
    split; [exact Hd|]. inversion H. unfold hexv. bdec. }
  destruct (rng 97 102 h) eqn:E2.
  { apply rng_true in E2. split; [unfold hexdig; lia|]. inversion H. unfold hexv. bdec. }
  destruct (rng 65 70 h) eqn:E3; [|discriminate].
  apply rng_true in E3. split; [unfold hexdig; lia|]. inversion H. unfold hexv. bdec.
Qed.

Lemma getu4_u16 h1 h2 h3 h4 : hexdig h1 -> hexdig h2 -> hexdig h3 -> hexdig h4 ->
  getu4 h1 h2 h3 h4 = Some (u16 h1 h2 h3 h4).
Proof.
  intros H1 H2 H3 H4. unfold getu4.
  rewrite (hex_val_hexv _ H1), (hex_val_hexv _ H2), (hex_val_hexv _ H3), (hex_val_hexv _ H4).
  f_equal. unfold u16. lia.
Qed.

Lemma getu4_some h1 h2 h3 h4 rr : getu4 h1 h2 h3 h4 = Some rr ->
  hexdig h1 /\ hexdig h2 /\ hexdig h3 /\ hexdig h4 /\ rr = u16 h1 h2 h3 h4.
Proof.
  unfold getu4. intro H.
  destruct (hex_val h1) as [a|] eqn:E1; [|discriminate].
  destruct (hex_val h2) as [b|] eqn:E2; [|discriminate].
  destruct (hex_val h3) as [c|] eqn:E3; [|discriminate].
  destruct (hex_val h4) as [d|] eqn:E4; [|discriminate].
  apply hex_val_some in E1, E2, E3, E4.
  destruct E1 as [G1 ->], E2 as [G2 ->], E3 as [G3 ->], E4 as [G4 ->].
  inversion H. repeat split; try assumption. unfold u16. lia.
Qed.

Lemma hexdig_ascii h : hexdig h -> h < 128.
Proof. unfold hexdig. lia. Qed.

Lemma simple_escape_val c : esc_letter c -> simple_escape c = Some (esc_val c).
Proof.
  unfold esc_letter. intros [->|[->|[->|[->|[->|[->|[->| ->]]]]]]]; reflexivity.
Qed.

Lemma simple_escape_some e v : simple_escape e = Some v -> esc_letter e /\ v = esc_val e.
Proof.
  unfold simple_escape. intro H.
  destruct ((e =? 34) || (e =? 92) || (e =? 47)) eqn:E1.
  { inversion H; subst. apply orb_true_iff in E1. destruct E1 as [E1|E1].
    - apply orb_true_iff in E1. destruct E1 as [E1|E1]; apply Z.eqb_eq in E1; subst;
        (split; [unfold esc_letter; lia|reflexivity]).
    - apply Z.eqb_eq in E1; subst. split; [unfold esc_letter; lia|reflexivity]. }
  destruct (e =? 98) eqn:E2. { apply Z.eqb_eq in E2; subst. inversion H. split; [unfold esc_letter; lia|reflexivity]. }
  destruct (e =? 102) eqn:E3. { apply Z.eqb_eq in E3; subst. inversion H. split; [unfold esc_letter; lia|reflexivity]. }
  destruct (e =? 110) eqn:E4. { apply Z.eqb_eq in E4; subst. inversion H. split; [unfold esc_letter; lia|reflexivity]. }
  destruct (e =? 114) eqn:E5. { apply Z.eqb_eq in E5; subst. inversion H. split; [unfold esc_letter; lia|reflexivity]. }
  destruct (e =? 116) eqn:E6; [|discriminate].
  apply Z.eqb_eq in E6; subst. inversion H. split; [unfold esc_letter; lia|reflexivity].
Qed.

Lemma is_surrogate_split u : is_surrogate u = is_high u || is_low u.
Proof. unfold is_surrogate, is_high, is_low. bdec. Qed.

Lemma utf16_pair_spec r1 r2 :
  utf16_pair r1 r2 = if is_high r1 && is_low r2 then Some (pair_cp r1 r2) else None.
Proof.
  unfold utf16_pair, is_high, is_low, pair_cp.
  destruct ((55296 <=? r1) && (r1 <? 56320)) eqn:E1; cbn [andb]; [|reflexivity].
  destruct ((56320 <=? r2) && (r2 <? 57344)) eqn:E2; [|reflexivity].
  f_equal. lia.
Qed.

(* --- the loop, unfolded once --- *)

(* getu4(s[r:]) for the second escape of a surrogate pair *)
Definition lookahead_low (r2 : list Z) : option (Z * list Z) :=
  match r2 with
  | b :: u :: l1 :: l2 :: l3 :: l4 :: r3 =>
      if (b =? 92) && (u =? 117) then
        match getu4 l1 l2 l3 l4 with Some rr1 => Some (rr1, r3) | None => None end
      else None
  | _ => None
  end.

Definition pair_result (r2 : list Z) (rr : Z) : option (Z * list Z) :=
  match lookahead_low r2 with
  | Some (rr1, r3) => match utf16_pair rr rr1 with Some cp => Some (cp, r3) | None => None end
  | None => None
  end.

Lemma str_loop_u h1 h2 h3 h4 r2 :
  str_loop (92 :: 117 :: h1 :: h2 :: h3 :: h4 :: r2) 0%nat =
  match getu4 h1 h2 h3 h4 with
  | None => None
  | Some rr =>
      if is_surrogate rr then
        match pair_result r2 rr with
        | Some (cp, r3) => pre (utf8_encode cp) (str_loop r3 0%nat)
        | None => pre fffd (str_loop r2 0%nat)
        end
      else pre (utf8_encode rr) (str_loop r2 0%nat)
  end.
Proof.
  cbn [str_loop]. replace (92 =? 34) with false by reflexivity. replace (92 =? 92) with true by reflexivity.
  replace (117 =? 117) with true by reflexivity.
  destruct (getu4 h1 h2 h3 h4) as [rr|]; [|reflexivity].
  destruct (is_surrogate rr); [|reflexivity].
  unfold pair_result, lookahead_low.
  destruct r2 as [|b [|u [|l1 [|l2 [|l3 [|l4 r3]]]]]]; try reflexivity.
  destruct ((b =? 92) && (u =? 117)); [|reflexivity].
  destruct (getu4 l1 l2 l3 l4) as [rr1|]; [|reflexivity].
  destruct (utf16_pair rr rr1); reflexivity.
Qed.

Lemma str_loop_u_short r1 : (length r1 < 4)%nat -> str_loop (92 :: 117 :: r1) 0%nat = None.
Proof.
  intro H. cbn [str_loop]. replace (92 =? 34) with false by reflexivity.
  replace (92 =? 92) with true by reflexivity. replace (117 =? 117) with true by reflexivity.
  destruct r1 as [|a [|b [|c [|d r]]]]; try reflexivity. simpl in H. lia.
Qed.

Lemma str_loop_esc e r1 : e <> 117 ->
  str_loop (92 :: e :: r1) 0%nat =
  match simple_escape e with Some v => pre [v] (str_loop r1 0%nat) | None => None end.
Proof.
  intro H. cbn [str_loop]. replace (92 =? 34) with false by reflexivity.
  replace (92 =? 92) with true by reflexivity.
  replace (e =? 117) with false by (symmetry; apply Z.eqb_neq; exact H). reflexivity.
Qed.

Lemma str_loop_quote rest : str_loop (34 :: rest) 0%nat = if forallb js_space rest then Some [] else None.
Proof. cbn [str_loop]. replace (34 =? 34) with true by reflexivity. reflexivity. Qed.

Lemma str_loop_ascii c rest : c <> 34 -> c <> 92 -> 32 <= c < 128 ->
  str_loop (c :: rest) 0%nat = pre [c] (str_loop rest 0%nat).
Proof.
  intros H1 H2 H3. cbn [str_loop].
  replace (c =? 34) with false by (symmetry; apply Z.eqb_neq; exact H1).
  replace (c =? 92) with false by (symmetry; apply Z.eqb_neq; exact H2).
  replace (c <? 32) with false by (symmetry; apply Z.ltb_ge; lia).
  replace (c <? 128) with true by (symmetry; apply Z.ltb_lt; lia). reflexivity.
Qed.

Lemma str_loop_high c rest : 128 <= c ->
  str_loop (c :: rest) 0%nat =
  match go_rune_len (c :: rest) with
  | O => pre fffd (str_loop rest 0%nat)
  | S k => pre [c] (str_loop rest k)
  end.
Proof.
  intros H. cbn [str_loop].
  replace (c =? 34) with false by (symmetry; apply Z.eqb_neq; lia).
  replace (c =? 92) with false by (symmetry; apply Z.eqb_neq; lia).
  replace (c <? 32) with false by (symmetry; apply Z.ltb_ge; lia).
  replace (c <? 128) with false by (symmetry; apply Z.ltb_ge; lia). reflexivity.
Qed.

Lemma str_loop_pending pfx more : str_loop (pfx ++ more) (length pfx) = pre pfx (str_loop more 0%nat).
Proof.
  induction pfx as [|c pfx IH]; [symmetry; apply pre_nil|].
  cbn [app length str_loop]. rewrite IH. apply pre_pre.
Qed.

Lemma str_loop_multi mb more : Utf8Multi mb -> str_loop (mb ++ more) 0%nat = pre mb (str_loop more 0%nat).
Proof.
  intro H. destruct (Utf8Multi_cons _ H) as [c [t [E Hc]]].
  assert (G := go_rune_len_multi mb more H). subst mb. cbn [app] in *.
  rewrite (str_loop_high _ _ Hc). rewrite G. cbn [length]. rewrite str_loop_pending. apply pre_pre.
Qed.

(* --- lookahead on the bytes of the following items --- *)

Lemma lookahead_not92 b r : b <> 92 -> lookahead_low (b :: r) = None.
Proof.
  intro H. unfold lookahead_low. destruct r as [|u [|l1 [|l2 [|l3 [|l4 r3]]]]]; try reflexivity.
  replace (b =? 92) with false by (symmetry; apply Z.eqb_neq; exact H). reflexivity.
Qed.

Lemma lookahead_esc c r : c <> 117 -> lookahead_low (92 :: c :: r) = None.
Proof.
  intro H. unfold lookahead_low. destruct r as [|l1 [|l2 [|l3 [|l4 r3]]]]; try reflexivity.
  replace (c =? 117) with false by (symmetry; apply Z.eqb_neq; exact H). rewrite andb_false_r. reflexivity.
Qed.

Lemma lookahead_uni a b c d r : hexdig a -> hexdig b -> hexdig c -> hexdig d ->
  lookahead_low (92 :: 117 :: a :: b :: c :: d :: r) = Some (u16 a b c d, r).
Proof.
  intros. unfold lookahead_low. replace ((92 =? 92) && (117 =? 117)) with true by reflexivity.
  rewrite getu4_u16 by assumption. reflexivity.
Qed.

Lemma lookahead_some_inv r2 rr1 r3 : lookahead_low r2 = Some (rr1, r3) ->
  exists a b c d, r2 = 92 :: 117 :: a :: b :: c :: d :: r3 /\
                  hexdig a /\ hexdig b /\ hexdig c /\ hexdig d /\ rr1 = u16 a b c d.
Proof.
  unfold lookahead_low. destruct r2 as [|b0 [|u [|l1 [|l2 [|l3 [|l4 r3']]]]]]; try discriminate.
  destruct ((b0 =? 92) && (u =? 117)) eqn:E; [|discriminate].
  apply andb_true_iff in E. destruct E as [E1 E2]. apply Z.eqb_eq in E1, E2. subst.
  destruct (getu4 l1 l2 l3 l4) as [x|] eqn:G; [|discriminate].
  intro H; inversion H; subst. destruct (getu4_some _ _ _ _ _ G) as [G1 [G2 [G3 [G4 G5]]]].
  exists l1, l2, l3, l4. repeat split; assumption.
Qed.

Lemma pair_result_not_high r2 rr : is_high rr = false -> pair_result r2 rr = None.
Proof.
  intro H. unfold pair_result. destruct (lookahead_low r2) as [[rr1 r3]|]; [|reflexivity].
  rewrite utf16_pair_spec. rewrite H. reflexivity.
Qed.

Lemma Unescaped_head bs : Unescaped bs -> exists b r, bs = b :: r /\ b <> 92 /\ b <> 34 /\ 32 <= b.
Proof.
  intros [b Hb H34 H92|bs' Hm].
  - exists b, []. repeat split; lia.
  - destruct (Utf8Multi_cons _ Hm) as [c [t [-> Hc]]]. exists c, t. repeat split; lia.
Qed.

(* the outcome of the pair test, from the items that follow *)
Lemma pair_result_items items w rr : Forall item_ok items -> is_high rr = true ->
  pair_result (flat_map item_bytes items ++ 34 :: w) rr =
  match items with
  | IUni a b c d :: items' =>
      if is_low (u16 a b c d)
      then Some (pair_cp rr (u16 a b c d), flat_map item_bytes items' ++ 34 :: w) else None
  | _ => None
  end.
Proof.
  intros Hi Hh. unfold pair_result. destruct items as [|i items'].
  - cbn [flat_map app]. rewrite lookahead_not92 by lia. reflexivity.
  - inversion Hi as [|? ? Hi1 _]; subst. cbn [flat_map]. rewrite <- app_assoc.
    destruct i as [bs|c|a b c d]; cbn [item_bytes]; simpl in Hi1.
    + destruct (Unescaped_head _ Hi1) as [b0 [r [-> [N _]]]]. cbn [app]. rewrite lookahead_not92 by exact N. reflexivity.
    + cbn [app]. rewrite lookahead_esc by (unfold esc_letter in Hi1; lia). reflexivity.
    + cbn [app]. destruct Hi1 as [G1 [G2 [G3 G4]]]. rewrite lookahead_uni by assumption.
      rewrite utf16_pair_spec. rewrite Hh. cbn [andb]. destruct (is_low (u16 a b c d)); reflexivity.
Qed.

Lemma js_space_WS w : forallb js_space w = true -> WS w.
Proof.
  intro H. unfold WS. apply Forall_forall. intros x Hx.
  rewrite forallb_forall in H. specialize (H x Hx). unfold js_space in H. unfold ws_byte.
  repeat (apply orb_true_iff in H; destruct H as [H|H]); apply Z.eqb_eq in H; lia.
Qed.

Lemma WS_js_space w : WS w -> forallb js_space w = true.
Proof.
  intro H. apply forallb_forall. intros x Hx. unfold WS in H. rewrite Forall_forall in H.
  specialize (H x Hx). unfold ws_byte in H. unfold js_space.
  destruct H as [->|[->|[->| ->]]]; reflexivity.
Qed.

(* --- completeness: a JSON string literal decodes to the value the grammar gives --- *)

Lemma str_loop_items_n : forall n items w, (length items <= n)%nat -> Forall item_ok items ->
  forallb js_space w = true ->
  str_loop (flat_map item_bytes items ++ 34 :: w) 0%nat = Some (resolve items).
Proof.
  induction n as [|n IH]; intros items w Hn Hi Hw.
  - destruct items; [|simpl in Hn; lia]. cbn [flat_map app resolve]. rewrite str_loop_quote, Hw. reflexivity.
  - destruct items as [|i items].
    { cbn [flat_map app resolve]. rewrite str_loop_quote, Hw. reflexivity. }
    inversion Hi as [|? ? Hi1 Hi2]; subst. cbn [flat_map]. rewrite <- app_assoc.
    assert (IHt : str_loop (flat_map item_bytes items ++ 34 :: w) 0%nat = Some (resolve items))
      by (apply IH; [simpl in Hn; lia|exact Hi2|exact Hw]).
    destruct i as [bs|c|a b c d]; cbn [item_bytes]; simpl in Hi1.
    + destruct Hi1 as [b0 Hb H34 H92|bs Hm].
      * cbn [app]. rewrite str_loop_ascii by lia. rewrite IHt. reflexivity.
      * rewrite (str_loop_multi _ _ Hm). rewrite IHt. reflexivity.
    + cbn [app]. rewrite str_loop_esc by (unfold esc_letter in Hi1; lia).
      rewrite (simple_escape_val _ Hi1). rewrite IHt. reflexivity.
    + cbn [app]. destruct Hi1 as [G1 [G2 [G3 G4]]]. rewrite str_loop_u.
      rewrite getu4_u16 by assumption. rewrite is_surrogate_split. cbn [resolve].
      destruct (is_high (u16 a b c d)) eqn:Eh.
      * cbn [orb]. rewrite (pair_result_items _ _ _ Hi2 Eh).
        destruct items as [|[bs'|c'|a' b' c' d'] items'']; try (rewrite IHt; reflexivity).
        destruct (is_low (u16 a' b' c' d')) eqn:El; [|rewrite IHt; reflexivity].
        inversion Hi2 as [|? ? _ Hi3]; subst.
        rewrite (IH items'' w); [reflexivity|simpl in Hn; lia|exact Hi3|exact Hw].
      * cbn [orb]. destruct (is_low (u16 a b c d)) eqn:El.
        -- rewrite (pair_result_not_high _ _ Eh). rewrite IHt. reflexivity.
        -- rewrite IHt. reflexivity.
Qed.

Theorem json_string_decode_complete sb s : StringLit sb s -> json_string_decode sb = Some s.
Proof.
  intros [items Hi]. unfold json_string_decode.
  apply (str_loop_items_n (length items)); [lia|exact Hi|reflexivity].
Qed.

(* with trailing whitespace, as json.Unmarshal accepts *)
Lemma json_string_decode_ws sb s w : StringLit sb s -> WS w -> json_string_decode (sb ++ w) = Some s.
Proof.
  intros [items Hi] Hw. unfold json_string_decode. cbn [app]. rewrite <- app_assoc. cbn [app].
  apply (str_loop_items_n (length items)); [lia|exact Hi|apply WS_js_space; exact Hw].
Qed.

(* --- soundness: what decodes (and is valid UTF-8) is a JSON string literal,
       possibly followed by whitespace --- *)

Lemma pair_result_some_inv r2 rr cp r3 : pair_result r2 rr = Some (cp, r3) ->
  exists a b c d, r2 = 92 :: 117 :: a :: b :: c :: d :: r3 /\
    hexdig a /\ hexdig b /\ hexdig c /\ hexdig d /\
    is_high rr = true /\ is_low (u16 a b c d) = true /\ cp = pair_cp rr (u16 a b c d).
Proof.
  unfold pair_result. destruct (lookahead_low r2) as [[rr1 r3']|] eqn:E; [|discriminate].
  destruct (lookahead_some_inv _ _ _ E) as [a [b [c [d [E1 [G1 [G2 [G3 [G4 G5]]]]]]]]].
  rewrite utf16_pair_spec. destruct (is_high rr) eqn:Eh; cbn [andb]; [|discriminate].
  destruct (is_low rr1) eqn:El; [|discriminate].
  intro H; inversion H; subst. exists a, b, c, d. repeat split; assumption.
Qed.

(* when the pair test fails, the next item is not a low-surrogate escape *)
Lemma resolve_uni_fffd a b c d items w :
  Forall item_ok items ->
  is_surrogate (u16 a b c d) = true ->
  pair_result (flat_map item_bytes items ++ 34 :: w) (u16 a b c d) = None ->
  resolve (IUni a b c d :: items) = fffd ++ resolve items.
Proof.
  intros Hi Hs Hp. cbn [resolve]. rewrite is_surrogate_split in Hs.
  destruct (is_high (u16 a b c d)) eqn:Eh.
  - rewrite (pair_result_items _ _ _ Hi Eh) in Hp.
    destruct items as [|[bs'|c'|a' b' c' d'] items'']; try reflexivity.
    destruct (is_low (u16 a' b' c' d')); [discriminate|reflexivity].
  - cbn [orb] in Hs. rewrite Hs. reflexivity.
Qed.

Lemma str_loop_sound_n : forall n bs s, (length bs <= n)%nat ->
  str_loop bs 0%nat = Some s -> utf8_valid_from bs 0%nat = true ->
  exists items w, bs = flat_map item_bytes items ++ 34 :: w /\ Forall item_ok items /\
                  s = resolve items /\ WS w.
Proof.
  induction n as [|n IH]; intros bs s Hn H Hv.
  - destruct bs; [discriminate|simpl in Hn; lia].
  - destruct bs as [|c rest]; [discriminate|]. simpl in Hn.
    destruct (Z.eq_dec c 34) as [->|N34].
    { rewrite str_loop_quote in H. destruct (forallb js_space rest) eqn:Ew; [|discriminate].
      inversion H; subst. exists [], rest. repeat split; [constructor|apply js_space_WS; exact Ew]. }
    destruct (Z.eq_dec c 92) as [->|N92].
    { destruct rest as [|e r1]; [discriminate|].
      destruct (Z.eq_dec e 117) as [->|N117].
      - (* \uXXXX *)
        destruct (Nat.lt_ge_cases (length r1) 4) as [Hs|Hl].
        { rewrite str_loop_u_short in H by exact Hs. discriminate. }
        destruct r1 as [|h1 [|h2 [|h3 [|h4 r2]]]]; try (simpl in Hl; lia).
        rewrite str_loop_u in H.
        destruct (getu4 h1 h2 h3 h4) as [rr|] eqn:G; [|discriminate].
        destruct (getu4_some _ _ _ _ _ G) as [G1 [G2 [G3 [G4 ->]]]].
        assert (Hv2 : utf8_valid_from r2 0%nat = true).
        { change (92 :: 117 :: h1 :: h2 :: h3 :: h4 :: r2) with ([92; 117; h1; h2; h3; h4] ++ r2) in Hv.
          rewrite utf8_valid_ascii_list in Hv; [exact Hv|].
          repeat constructor; try (apply hexdig_ascii; assumption); lia. }
        destruct (is_surrogate (u16 h1 h2 h3 h4)) eqn:Es.
        + destruct (pair_result r2 (u16 h1 h2 h3 h4)) as [[cp r3]|] eqn:Ep.
          * destruct (pair_result_some_inv _ _ _ _ Ep) as [a [b [c [d [E2 [K1 [K2 [K3 [K4 [Kh [Kl ->]]]]]]]]]]].
            subst r2. destruct (pre_some_inv _ _ _ H) as [s' [Hs' ->]].
            assert (Hv3 : utf8_valid_from r3 0%nat = true).
            { change (92 :: 117 :: a :: b :: c :: d :: r3) with ([92; 117; a; b; c; d] ++ r3) in Hv2.
              rewrite utf8_valid_ascii_list in Hv2; [exact Hv2|].
              repeat constructor; try (apply hexdig_ascii; assumption); lia. }
            destruct (IH r3 s') as [items [w [E [Hi [-> Hw]]]]]; [simpl in *; lia|exact Hs'|exact Hv3|].
            exists (IUni h1 h2 h3 h4 :: IUni a b c d :: items), w. repeat split.
            -- cbn [flat_map item_bytes app]. rewrite E. reflexivity.
            -- constructor; [simpl; tauto|]. constructor; [simpl; tauto|exact Hi].
            -- cbn [resolve]. rewrite Kh, Kl. reflexivity.
            -- exact Hw.
          * destruct (pre_some_inv _ _ _ H) as [s' [Hs' ->]].
            destruct (IH r2 s') as [items [w [E [Hi [-> Hw]]]]]; [simpl in *; lia|exact Hs'|exact Hv2|].
            exists (IUni h1 h2 h3 h4 :: items), w. repeat split.
            -- cbn [flat_map item_bytes app]. rewrite E. reflexivity.
            -- constructor; [simpl; tauto|exact Hi].
            -- symmetry. apply (resolve_uni_fffd _ _ _ _ _ w Hi Es). rewrite <- E. exact Ep.
            -- exact Hw.
        + destruct (pre_some_inv _ _ _ H) as [s' [Hs' ->]].
          destruct (IH r2 s') as [items [w [E [Hi [-> Hw]]]]]; [simpl in *; lia|exact Hs'|exact Hv2|].
          exists (IUni h1 h2 h3 h4 :: items), w. repeat split.
          * cbn [flat_map item_bytes app]. rewrite E. reflexivity.
          * constructor; [simpl; tauto|exact Hi].
          * cbn [resolve]. rewrite is_surrogate_split in Es. apply orb_false_iff in Es.
            destruct Es as [-> ->]. reflexivity.
          * exact Hw.
      - (* two-character escape *)
        rewrite str_loop_esc in H by exact N117.
        destruct (simple_escape e) as [v|] eqn:Ee; [|discriminate].
        destruct (simple_escape_some _ _ Ee) as [He ->].
        destruct (pre_some_inv _ _ _ H) as [s' [Hs' ->]].
        assert (Hv1 : utf8_valid_from r1 0%nat = true).
        { change (92 :: e :: r1) with ([92; e] ++ r1) in Hv.
          rewrite utf8_valid_ascii_list in Hv; [exact Hv|].
          repeat constructor; unfold esc_letter in He; lia. }
        destruct (IH r1 s') as [items [w [E [Hi [-> Hw]]]]]; [simpl in *; lia|exact Hs'|exact Hv1|].
        exists (IEsc e :: items), w. repeat split.
        + cbn [flat_map item_bytes app]. rewrite E. reflexivity.
        + constructor; [exact He|exact Hi].
        + exact Hw. }
    destruct (Z.ltb_spec c 32) as [L32|G32].
    { cbn [str_loop] in H.
      replace (c =? 34) with false in H by (symmetry; apply Z.eqb_neq; exact N34).
      replace (c =? 92) with false in H by (symmetry; apply Z.eqb_neq; exact N92).
      replace (c <? 32) with true in H by (symmetry; apply Z.ltb_lt; exact L32). discriminate. }
    destruct (Z.ltb_spec c 128) as [L128|G128].
    { rewrite str_loop_ascii in H by lia. destruct (pre_some_inv _ _ _ H) as [s' [Hs' ->]].
      rewrite utf8_valid_ascii in Hv by exact L128.
      destruct (IH rest s') as [items [w [E [Hi [-> Hw]]]]]; [lia|exact Hs'|exact Hv|].
      exists (IRaw [c] :: items), w. repeat split.
      - cbn [flat_map item_bytes app]. rewrite E. reflexivity.
      - constructor; [|exact Hi]. simpl. apply Un_ascii; lia.
      - exact Hw. }
    rewrite str_loop_high in H by exact G128.
    destruct (utf8_valid_step _ _ Hv) as [[Hc _]|[mb [more [E [Hm Hr]]]]]; [lia|].
    assert (G := go_rune_len_multi mb more Hm). rewrite <- E in G. rewrite G in H.
    destruct (Utf8Multi_cons _ Hm) as [c0 [t [Emb _]]]. subst mb. cbn [app] in E. inversion E; subst c0 rest.
    cbn [length] in H. rewrite str_loop_pending in H. rewrite pre_pre in H. cbn [app] in H.
    destruct (pre_some_inv _ _ _ H) as [s' [Hs' ->]].
    destruct (IH more s') as [items [w [E' [Hi [-> Hw]]]]]; [rewrite app_length in Hn; lia|exact Hs'|exact Hr|].
    exists (IRaw (c :: t) :: items), w. repeat split.
    + cbn [flat_map item_bytes]. rewrite E'. rewrite <- app_assoc. reflexivity.
    + constructor; [|exact Hi]. simpl. apply Un_multi. exact Hm.
    + exact Hw.
Qed.

Theorem json_string_decode_sound tb s :
  json_string_decode tb = Some s -> utf8_valid tb = true ->
  exists core w, tb = core ++ w /\ WS w /\ StringLit core s.
Proof.
  unfold json_string_decode, utf8_valid. destruct tb as [|q r]; [discriminate|].
  destruct q as [|p|p]; try discriminate.
  repeat (destruct p as [p|p|]; try discriminate).
  intros H Hv. change (Zpos 34%positive) with 34 in *.
  rewrite utf8_valid_ascii in Hv by lia.
  destruct (str_loop_sound_n (length r) r s (le_n _) H Hv) as [items [w [E [Hi [-> Hw]]]]].
  exists (34 :: flat_map item_bytes items ++ [34]), w. split; [|split].
  - rewrite E. cbn [app]. rewrite <- app_assoc. reflexivity.
  - exact Hw.
  - constructor. exact Hi.
Qed.

(* --- a JSON string literal is valid UTF-8 --- *)

Lemma ascii_valid l : Forall (fun b => b < 128) l -> utf8_valid l = true.
Proof.
  intro H. unfold utf8_valid. rewrite <- (app_nil_r l). rewrite utf8_valid_ascii_list by exact H. reflexivity.
Qed.

Lemma item_valid i : item_ok i -> utf8_valid (item_bytes i) = true.
Proof.
  destruct i as [bs|c|h1 h2 h3 h4]; simpl; intro H.
  - destruct H as [b Hb _ _|bs' Hm].
    + apply ascii_valid. repeat constructor. lia.
    + unfold utf8_valid. rewrite <- (app_nil_r bs'). rewrite (utf8_valid_multi _ _ Hm). reflexivity.
  - apply ascii_valid. repeat constructor; unfold esc_letter in H; lia.
  - destruct H as [H1 [H2 [H3 H4]]]. apply ascii_valid.
    repeat constructor; try (apply hexdig_ascii; assumption); lia.
Qed.

Lemma items_valid items : Forall item_ok items -> utf8_valid (flat_map item_bytes items) = true.
Proof.
  induction 1 as [|i items Hi _ IH]; [reflexivity|]. cbn [flat_map].
  apply utf8_valid_app; [apply item_valid; exact Hi|exact IH].
Qed.

Lemma StringLit_valid bs s : StringLit bs s -> utf8_valid bs = true.
Proof.
  intros [items Hi]. change (34 :: flat_map item_bytes items ++ [34]) with ([34] ++ flat_map item_bytes items ++ [34]).
  apply utf8_valid_app; [reflexivity|]. apply utf8_valid_app; [apply items_valid; exact Hi|reflexivity].
Qed.

(* ================================================================================== *)
(* B. the structural parser and the token grammar                                       *)
(* ================================================================================== *)

(* JSON over scanner tokens; the leaves carry the validators of parseNumber /
   parseString / parseKeyword.  TokE / TokM include the closing bracket. *)
Inductive TokV : list jtoken -> jvalue -> Prop :=
| TV_null t : tty t = TKeyword -> tbytes t = kw_null -> TokV [t] JNull
| TV_true t : tty t = TKeyword -> tbytes t = kw_true -> TokV [t] (JBool true)
| TV_false t : tty t = TKeyword -> tbytes t = kw_false -> TokV [t] (JBool false)
| TV_num t m e : tty t = TNumber -> json_number_ok (tbytes t) = true ->
    number_value (tbytes t) = (m, e) -> TokV [t] (JNum m e)
| TV_str t s : tty t = TString -> json_string_decode (tbytes t) = Some s ->
    utf8_valid (tbytes t) = true -> TokV [t] (JStr s)
| TV_arr0 o c : tty o = TBrackO -> tty c = TBrackC -> TokV [o; c] (JArr [])
| TV_arr o ts vs : tty o = TBrackO -> TokE ts vs -> TokV (o :: ts) (JArr vs)
| TV_obj0 o c : tty o = TBraceO -> tty c = TBraceC -> TokV [o; c] (JObj [])
| TV_obj o ts ms : tty o = TBraceO -> TokM ts ms -> TokV (o :: ts) (JObj ms)
with TokE : list jtoken -> list jvalue -> Prop :=
| TE_one ts v c : TokV ts v -> tty c = TBrackC -> TokE (ts ++ [c]) [v]
| TE_cons ts v cm rest vs : TokV ts v -> tty cm = TComma -> TokE rest vs ->
    TokE (ts ++ cm :: rest) (v :: vs)
with TokM : list jtoken -> list (list Z * jvalue) -> Prop :=
| TM_one kt k col ts v c : tty kt = TString -> json_string_decode (tbytes kt) = Some k ->
    utf8_valid (tbytes kt) = true -> tty col = TColon -> TokV ts v -> tty c = TBraceC -> TokM (kt :: col :: ts ++ [c]) [(k, v)]
| TM_cons kt k col ts v cm rest ms : tty kt = TString -> json_string_decode (tbytes kt) = Some k ->
    utf8_valid (tbytes kt) = true -> tty col = TColon -> TokV ts v -> tty cm = TComma -> TokM rest ms ->
    TokM (kt :: col :: ts ++ cm :: rest) ((k, v) :: ms).

Scheme TokV_mut := Minimality for TokV Sort Prop
  with TokE_mut := Minimality for TokE Sort Prop
  with TokM_mut := Minimality for TokM Sort Prop.
Combined Scheme tok_mutind from TokV_mut, TokE_mut, TokM_mut.

Lemma jtype_eqb_eq a b : jtype_eqb a b = true <-> a = b.
Proof. destruct a, b; unfold jtype_eqb; simpl; split; intro H; try reflexivity; try discriminate. Qed.

Lemma jtype_eqb_neq a b : jtype_eqb a b = false <-> a <> b.
Proof. apply bool_false_iff. apply jtype_eqb_eq. Qed.

Lemma jtype_eqb_refl a : jtype_eqb a a = true.
Proof. apply jtype_eqb_eq. reflexivity. Qed.

Lemma read_cons t r : tty t <> TEOF -> read (t :: r) = Some (t, r).
Proof.
  intro H. unfold read, is_eof. replace (jtype_eqb (tty t) TEOF) with false; [reflexivity|].
  symmetry. apply jtype_eqb_neq. exact H.
Qed.

(* first token of a value *)
Definition vtype (ty : jtype) : Prop :=
  ty = TKeyword \/ ty = TNumber \/ ty = TString \/ ty = TBrackO \/ ty = TBraceO.

Lemma TokV_head ts v : TokV ts v -> exists t r, ts = t :: r /\ vtype (tty t).
Proof.
  intro H. destruct H; eexists; eexists; (split; [reflexivity|]); unfold vtype; tauto.
Qed.

Lemma TokE_head ts vs : TokE ts vs -> exists t r, ts = t :: r /\ vtype (tty t).
Proof.
  intro H. destruct H as [ts v c Hv _|ts v cm rest vs Hv _ _];
    destruct (TokV_head _ _ Hv) as [t [r [-> Ht]]]; eexists; eexists; (split; [reflexivity|exact Ht]).
Qed.

Lemma TokM_head ts ms : TokM ts ms -> exists t r, ts = t :: r /\ tty t = TString.
Proof. intro H. destruct H; eexists; eexists; (split; [reflexivity|assumption]). Qed.

Definition nums_ok (ts : list jtoken) : Prop :=
  Forall (fun t => tty t = TNumber -> big_parse_ok (tbytes t) = true) ts.

Lemma nums_ok_app a b : nums_ok (a ++ b) <-> nums_ok a /\ nums_ok b.
Proof. apply Forall_app. Qed.

Lemma nums_ok_cons t r : nums_ok (t :: r) <-> (tty t = TNumber -> big_parse_ok (tbytes t) = true) /\ nums_ok r.
Proof. unfold nums_ok. split; intro H; [inversion H; subst; tauto|constructor; tauto]. Qed.

(* ---- completeness: the parser accepts every token sequence of the grammar -------- *)

Lemma vtype_not ty : vtype ty -> ty <> TBrackC /\ ty <> TBraceC /\ ty <> TEOF.
Proof. unfold vtype. intro H. repeat split; intro E; subst; destruct H as [H|[H|[H|[H|H]]]]; discriminate. Qed.

Lemma parse_value_string f t r s : tty t = TString -> json_string_decode (tbytes t) = Some s ->
  utf8_valid (tbytes t) = true -> parse_value (S f) (t :: r) = Res (JStr s) [] r.
Proof.
  intros Ht Hd Hv. cbn [parse_value]. rewrite Ht. unfold parse_string.
  rewrite read_cons by (rewrite Ht; discriminate). rewrite Hd, Hv. reflexivity.
Qed.

Lemma parse_complete :
  (forall ts v, TokV ts v -> forall more f, nums_ok ts -> (f > length ts)%nat ->
     parse_value f (ts ++ more) = Res v [] more) /\
  (forall ts vs, TokE ts vs -> forall more f g acc, nums_ok ts -> (f > length ts)%nat -> (g >= length ts)%nat ->
     arr_loop (parse_value f) g (ts ++ more) acc [] = Res (Some (JArr (acc ++ vs))) [] more) /\
  (forall ts ms, TokM ts ms -> forall more f g acc, nums_ok ts -> (f > length ts)%nat -> (g >= length ts)%nat ->
     obj_loop (parse_value f) g (ts ++ more) acc [] = Res (Some (JObj (acc ++ ms))) [] more).
Proof.
  apply tok_mutind.
  - (* null *) intros t Ht Hb more f _ Hf. destruct f as [|f]; [simpl in Hf; lia|].
    cbn [app parse_value]. rewrite Ht. unfold parse_keyword. rewrite read_cons by (rewrite Ht; discriminate).
    rewrite Hb. reflexivity.
  - intros t Ht Hb more f _ Hf. destruct f as [|f]; [simpl in Hf; lia|].
    cbn [app parse_value]. rewrite Ht. unfold parse_keyword. rewrite read_cons by (rewrite Ht; discriminate).
    rewrite Hb. reflexivity.
  - intros t Ht Hb more f _ Hf. destruct f as [|f]; [simpl in Hf; lia|].
    cbn [app parse_value]. rewrite Ht. unfold parse_keyword. rewrite read_cons by (rewrite Ht; discriminate).
    rewrite Hb. reflexivity.
  - (* number *) intros t m e Ht Hok Hval more f Hn Hf. destruct f as [|f]; [simpl in Hf; lia|].
    cbn [app parse_value]. rewrite Ht. unfold parse_number. rewrite read_cons by (rewrite Ht; discriminate).
    rewrite Hok. apply nums_ok_cons in Hn. rewrite (proj1 Hn Ht). rewrite Hval. reflexivity.
  - (* string *) intros t s Ht Hd Hu more f _ Hf. destruct f as [|f]; [simpl in Hf; lia|].
    cbn [app]. apply parse_value_string; assumption.
  - (* [] *) intros o c Ho Hc more f _ Hf. destruct f as [|f]; [simpl in Hf; lia|].
    cbn [app parse_value]. rewrite Ho. unfold parse_array. rewrite read_cons by (rewrite Ho; discriminate).
    cbn [arr_loop]. rewrite Hc. rewrite jtype_eqb_refl. rewrite read_cons by (rewrite Hc; discriminate).
    reflexivity.
  - (* [ ... ] *) intros o ts vs Ho He IH more f Hn Hf. destruct f as [|f]; [simpl in Hf; lia|].
    cbn [app parse_value]. rewrite Ho. unfold parse_array. rewrite read_cons by (rewrite Ho; discriminate).
    apply nums_ok_cons in Hn. rewrite IH; [reflexivity|apply Hn|simpl in Hf; lia|rewrite app_length; lia].
  - (* {} *) intros o c Ho Hc more f _ Hf. destruct f as [|f]; [simpl in Hf; lia|].
    cbn [app parse_value]. rewrite Ho. unfold parse_object. rewrite read_cons by (rewrite Ho; discriminate).
    cbn [obj_loop]. rewrite Hc. rewrite jtype_eqb_refl. rewrite read_cons by (rewrite Hc; discriminate).
    reflexivity.
  - (* { ... } *) intros o ts ms Ho Hm IH more f Hn Hf. destruct f as [|f]; [simpl in Hf; lia|].
    cbn [app parse_value]. rewrite Ho. unfold parse_object. rewrite read_cons by (rewrite Ho; discriminate).
    apply nums_ok_cons in Hn. rewrite IH; [reflexivity|apply Hn|simpl in Hf; lia|rewrite app_length; lia].
  - (* last element *)
    intros ts v c Hv IH Hc more f g acc Hn Hf Hg. rewrite app_length in Hf, Hg. simpl in Hf, Hg.
    destruct g as [|g]; [lia|]. apply nums_ok_app in Hn. destruct Hn as [Hn1 _].
    destruct (TokV_head _ _ Hv) as [t0 [r0 [E0 Ht0]]]. destruct (vtype_not _ Ht0) as [N1 _].
    rewrite <- app_assoc. cbn [arr_loop]. rewrite E0 at 1. cbn [app].
    replace (jtype_eqb (tty t0) TBrackC) with false by (symmetry; apply jtype_eqb_neq; exact N1).
    rewrite <- ?E0. rewrite (IH _ f Hn1) by lia. cbn [app]. rewrite Hc.
    rewrite read_cons by (rewrite Hc; discriminate). reflexivity.
  - (* more elements *)
    intros ts v cm rest vs Hv IHv Hcm He IHe more f g acc Hn Hf Hg. rewrite app_length in Hf, Hg. simpl in Hf, Hg.
    destruct g as [|g]; [lia|]. apply nums_ok_app in Hn. destruct Hn as [Hn1 Hn2]. apply nums_ok_cons in Hn2.
    destruct (TokV_head _ _ Hv) as [t0 [r0 [E0 Ht0]]]. destruct (vtype_not _ Ht0) as [N1 _].
    destruct (TokE_head _ _ He) as [t1 [r1 [E1 Ht1]]]. destruct (vtype_not _ Ht1) as [N2 _].
    rewrite <- app_assoc. cbn [arr_loop]. rewrite E0 at 1. cbn [app].
    replace (jtype_eqb (tty t0) TBrackC) with false by (symmetry; apply jtype_eqb_neq; exact N1).
    rewrite <- ?E0. rewrite (IHv _ f Hn1) by lia. cbn [app]. rewrite Hcm.
    rewrite read_cons by (rewrite Hcm; discriminate). rewrite E1 at 1. cbn [app].
    replace (jtype_eqb (tty t1) TBrackC) with false by (symmetry; apply jtype_eqb_neq; exact N2).
    rewrite <- ?E1.
    rewrite (IHe more f g (acc ++ [v])); [|apply Hn2|lia|lia].
    rewrite <- app_assoc. reflexivity.
  - (* last member *)
    intros kt k col ts v c Hkt Hk Hku Hcol Hv IH Hc more f g acc Hn Hf Hg. simpl in Hf, Hg.
    rewrite app_length in Hf, Hg. simpl in Hf, Hg.
    destruct g as [|g]; [lia|]. destruct f as [|f']; [lia|].
    apply nums_ok_cons in Hn. destruct Hn as [_ Hn]. apply nums_ok_cons in Hn. destruct Hn as [_ Hn].
    apply nums_ok_app in Hn. destruct Hn as [Hn1 _].
    cbn [app obj_loop]. rewrite Hkt. replace (jtype_eqb TString TBraceC) with false by reflexivity.
    rewrite (parse_value_string f' kt _ k Hkt Hk Hku). cbn [app]. rewrite read_cons by (rewrite Hcol; discriminate).
    rewrite Hcol. rewrite jtype_eqb_refl. cbn [negb].
    rewrite <- app_assoc. rewrite (IH _ (S f') Hn1) by lia. cbn [app]. rewrite Hc.
    rewrite read_cons by (rewrite Hc; discriminate). reflexivity.
  - (* more members *)
    intros kt k col ts v cm rest ms Hkt Hk Hku Hcol Hv IHv Hcm Hm IHm more f g acc Hn Hf Hg. simpl in Hf, Hg.
    rewrite app_length in Hf, Hg. simpl in Hf, Hg.
    destruct g as [|g]; [lia|]. destruct f as [|f']; [lia|].
    apply nums_ok_cons in Hn. destruct Hn as [_ Hn]. apply nums_ok_cons in Hn. destruct Hn as [_ Hn].
    apply nums_ok_app in Hn. destruct Hn as [Hn1 Hn2]. apply nums_ok_cons in Hn2.
    destruct (TokM_head _ _ Hm) as [t1 [r1 [E1 Ht1]]].
    cbn [app obj_loop]. rewrite Hkt. replace (jtype_eqb TString TBraceC) with false by reflexivity.
    rewrite (parse_value_string f' kt _ k Hkt Hk Hku). cbn [app]. rewrite read_cons by (rewrite Hcol; discriminate).
    rewrite Hcol. rewrite jtype_eqb_refl. cbn [negb].
    rewrite <- app_assoc. rewrite (IHv _ (S f') Hn1) by lia. cbn [app]. rewrite Hcm.
    rewrite read_cons by (rewrite Hcm; discriminate). rewrite E1 at 1. cbn [app].
    rewrite Ht1. replace (jtype_eqb TString TBraceC) with false by reflexivity.
    rewrite <- ?E1.
    rewrite (IHm more (S f') g (acc ++ [(k, v)])); [|apply Hn2|lia|lia].
    rewrite <- app_assoc. reflexivity.
Qed.

(* ---- soundness: what the parser accepts is in the token grammar --------------------- *)

Lemma app_single_not_nil {A} (l : list A) (x : A) : l ++ [x] = [] -> False.
Proof. destruct l; discriminate. Qed.

Lemma after_recover_res o d o' ds rest : after_recover o d = Res o' ds rest -> ds = d /\ o' = None.
Proof.
  unfold after_recover. destruct o as [[|t r]|]; try discriminate. intro H; inversion H. split; reflexivity.
Qed.

(* an error exit cannot produce the empty diagnostics list *)
Ltac absurd_exit H :=
  first
  [ discriminate H
  | apply after_recover_res in H; destruct H as [H _]; exfalso; eapply app_single_not_nil; symmetry; exact H
  | inversion H; exfalso; eapply app_single_not_nil; eassumption
  | inversion H; exfalso; eapply app_single_not_nil; symmetry; eassumption ].

Section LoopSound.
  Variable pv : list jtoken -> pres jvalue.
  Hypothesis pv_sound : forall ts v rest, pv ts = Res v [] rest ->
    exists pre, ts = pre ++ rest /\ TokV pre v.

  Lemma arr_loop_sound : forall g ts acc ds o rest,
    arr_loop pv g ts acc ds = Res o [] rest ->
    ds = [] /\ exists pre vs, ts = pre ++ rest /\ o = Some (JArr (acc ++ vs)) /\
      ((vs = [] /\ exists c, pre = [c] /\ tty c = TBrackC) \/ TokE pre vs).
  Proof.
    induction g as [|g IH]; intros ts acc ds o rest H; [discriminate|].
    cbn [arr_loop] in H. destruct ts as [|t0 r0]; [discriminate|].
    destruct (jtype_eqb (tty t0) TBrackC) eqn:E0.
    { apply jtype_eqb_eq in E0. rewrite read_cons in H by (rewrite E0; discriminate).
      inversion H; subst. split; [reflexivity|]. exists [t0], []. rewrite app_nil_r.
      repeat split. left. split; [reflexivity|]. exists t0. split; [reflexivity|exact E0]. }
    destruct (pv (t0 :: r0)) as [v vd ts1| |] eqn:Ev; try discriminate.
    destruct ts1 as [|t1 r1]; [discriminate|].
    destruct (tty t1) eqn:Et1;
      try (destruct (read (t1 :: r1)) as [[t ts2]|]; [|discriminate]; absurd_exit H).
    - (* closing bracket *)
      rewrite read_cons in H by (rewrite Et1; discriminate). inversion H; subst.
      match goal with Hd : ds ++ vd = [] |- _ => apply app_eq_nil in Hd; destruct Hd as [-> ->] end.
      destruct (pv_sound _ _ _ Ev) as [pre [E Hv]]. split; [reflexivity|].
      exists (pre ++ [t1]), [v]. repeat split.
      + rewrite E. rewrite <- app_assoc. reflexivity.
      + right. apply TE_one; assumption.
    - (* comma *)
      rewrite read_cons in H by (rewrite Et1; discriminate).
      destruct r1 as [|t2 r2]; [discriminate|].
      destruct (jtype_eqb (tty t2) TBrackC) eqn:E2; [absurd_exit H|].
      destruct (IH _ _ _ _ _ H) as [Hd [pre' [vs' [E' [Ho Hcase]]]]].
      apply app_eq_nil in Hd. destruct Hd as [-> ->].
      destruct (pv_sound _ _ _ Ev) as [pre [E Hv]]. split; [reflexivity|].
      destruct Hcase as [[-> [c [-> Hc]]]|He].
      + cbn [app] in E'. inversion E'; subst. apply jtype_eqb_neq in E2. contradiction.
      + exists (pre ++ t1 :: pre'), (v :: vs'). repeat split.
        * rewrite E, E'. rewrite <- app_assoc. reflexivity.
        * rewrite Ho. rewrite <- app_assoc. reflexivity.
        * right. apply TE_cons; assumption.
    - (* EOF *)
      destruct (read (t1 :: r1)) as [[t ts2]|]; [|discriminate].
      destruct (arr_recover t ts2 1); [absurd_exit H|discriminate].
  Qed.

  Lemma obj_loop_sound : forall g ts acc ds o rest,
    obj_loop pv g ts acc ds = Res o [] rest ->
    ds = [] /\ exists pre ms, ts = pre ++ rest /\ o = Some (JObj (acc ++ ms)) /\
      ((ms = [] /\ exists c, pre = [c] /\ tty c = TBraceC) \/ TokM pre ms).
  Proof.
    induction g as [|g IH]; intros ts acc ds o rest H; [discriminate|].
    cbn [obj_loop] in H. destruct ts as [|t0 r0]; [discriminate|].
    destruct (jtype_eqb (tty t0) TBraceC) eqn:E0.
    { apply jtype_eqb_eq in E0. rewrite read_cons in H by (rewrite E0; discriminate).
      inversion H; subst. split; [reflexivity|]. exists [t0], []. rewrite app_nil_r.
      repeat split. left. split; [reflexivity|]. exists t0. split; [reflexivity|exact E0]. }
    destruct (pv (t0 :: r0)) as [key kd ts1| |] eqn:Ek; try discriminate.
    destruct key as [| | |k| | |]; try absurd_exit H.
    destruct ts1 as [|colon rc]; [discriminate|].
    change (read (colon :: rc)) with (Some (colon, if is_eof colon then colon :: rc else rc)) in H. cbv iota beta in H.
    destruct (jtype_eqb (tty colon) TColon) eqn:Ec; cbn [negb] in H; [|absurd_exit H].
    apply jtype_eqb_eq in Ec.
    replace (is_eof colon) with false in H by (unfold is_eof; rewrite Ec; reflexivity).
    destruct (pv rc) as [v vd ts3| |] eqn:Ev; try discriminate.
    destruct ts3 as [|t3 r3]; [discriminate|].
    (* the key and the value were parsed without diagnostics, once we know the end result *)
    assert (Hfin : forall pre_rest ms',
      ds ++ kd = [] -> vd = [] ->
      t3 :: r3 = pre_rest ++ rest ->
      forall (Hbuild : forall pk pv', TokV pk (JStr k) -> TokV pv' v ->
                 t0 :: r0 = pk ++ colon :: pv' ++ pre_rest ++ rest ->
                 TokM (pk ++ colon :: pv' ++ pre_rest) ms'),
      exists pre ms, t0 :: r0 = pre ++ rest /\ Some (JObj (acc ++ ms')) = Some (JObj (acc ++ ms)) /\
        ((ms = [] /\ exists c, pre = [c] /\ tty c = TBraceC) \/ TokM pre ms)).
    { intros pre_rest ms' Hd Hvd E3 Hbuild. apply app_eq_nil in Hd. destruct Hd as [-> ->]. subst vd.
      destruct (pv_sound _ _ _ Ek) as [pk [Ek' Hk]]. destruct (pv_sound _ _ _ Ev) as [pv' [Ev' Hv]].
      assert (E : t0 :: r0 = pk ++ colon :: pv' ++ pre_rest ++ rest).
      { rewrite Ek', Ev', E3. reflexivity. }
      exists (pk ++ colon :: pv' ++ pre_rest), ms'. repeat split.
      - rewrite E. rewrite <- app_assoc. cbn [app]. rewrite <- app_assoc. reflexivity.
      - right. apply Hbuild; assumption. }
    destruct (tty t3) eqn:Et3;
      try (destruct (read (t3 :: r3)) as [[t ts4]|]; [|discriminate]; absurd_exit H).
    - (* closing brace *)
      rewrite read_cons in H by (rewrite Et3; discriminate). injection H as Ho Hd Hr. subst o rest.
      apply app_eq_nil in Hd; destruct Hd as [Hd1 Hd2].
      split; [apply app_eq_nil in Hd1; tauto|].
      apply (Hfin [t3] [(k, v)] Hd1 Hd2 eq_refl).
      intros pk pv' Hk Hv _. inversion Hk; subst. cbn [app].
      apply TM_one; assumption.
    - (* bracket instead of brace *)
      destruct (read (t3 :: r3)) as [[t [|t4 ts4]]|]; try discriminate. absurd_exit H.
    - (* comma *)
      rewrite read_cons in H by (rewrite Et3; discriminate).
      destruct r3 as [|t4 r4]; [discriminate|].
      destruct (jtype_eqb (tty t4) TBraceC) eqn:E4; [absurd_exit H|].
      destruct (IH _ _ _ _ _ H) as [Hd [pre' [ms' [E' [Ho Hcase]]]]].
      apply app_eq_nil in Hd. destruct Hd as [Hd1 Hd2].
      split; [apply app_eq_nil in Hd1; tauto|].
      destruct Hcase as [[-> [c [-> Hc]]]|Hm].
      + cbn [app] in E'. inversion E'; subst. apply jtype_eqb_neq in E4. contradiction.
      + rewrite Ho. rewrite <- app_assoc. cbn [app].
        apply (Hfin (t3 :: pre') ((k, v) :: ms') Hd1 Hd2); [rewrite E'; reflexivity|].
        intros pk pv' Hk Hv _. inversion Hk; subst. cbn [app]. apply TM_cons; assumption.
    - (* EOF *) absurd_exit H.
  Qed.
End LoopSound.

Lemma wrap_invalid_res r v ds rest : wrap_invalid r = Res v ds rest ->
  exists o, r = Res o ds rest /\ v = match o with Some n => n | None => JInvalid end.
Proof.
  destruct r as [[n|] ds' rest'| |]; simpl; intro H; inversion H; subst; eexists; split; reflexivity.
Qed.

Lemma parse_sound : forall f ts v rest, parse_value f ts = Res v [] rest ->
  exists pre, ts = pre ++ rest /\ TokV pre v.
Proof.
  induction f as [|f IH]; intros ts v rest H; [discriminate|].
  cbn [parse_value] in H. destruct ts as [|tok r]; [discriminate|].
  destruct (tty tok) eqn:Et; try discriminate.
  - (* object *)
    apply wrap_invalid_res in H. destruct H as [o [H ->]]. unfold parse_object in H.
    rewrite read_cons in H by (rewrite Et; discriminate).
    destruct (obj_loop_sound _ IH _ _ _ _ _ _ H) as [_ [pre [ms [E [-> Hcase]]]]]. cbn [app].
    exists (tok :: pre). split; [rewrite E; reflexivity|].
    destruct Hcase as [[-> [c [-> Hc]]]|Hm]; [apply TV_obj0; assumption|apply TV_obj; assumption].
  - (* array *)
    apply wrap_invalid_res in H. destruct H as [o [H ->]]. unfold parse_array in H.
    rewrite read_cons in H by (rewrite Et; discriminate).
    destruct (arr_loop_sound _ IH _ _ _ _ _ _ H) as [_ [pre [vs [E [-> Hcase]]]]]. cbn [app].
    exists (tok :: pre). split; [rewrite E; reflexivity|].
    destruct Hcase as [[-> [c [-> Hc]]]|Hm]; [apply TV_arr0; assumption|apply TV_arr; assumption].
  - (* keyword *)
    apply wrap_invalid_res in H. destruct H as [o [H ->]]. unfold parse_keyword in H.
    rewrite read_cons in H by (rewrite Et; discriminate).
    destruct (zlist_eqb (tbytes tok) [116; 114; 117; 101]) eqn:E1.
    { inversion H; subst. apply zlist_eqb_eq in E1. exists [tok]. split; [reflexivity|apply TV_true; assumption]. }
    destruct (zlist_eqb (tbytes tok) [102; 97; 108; 115; 101]) eqn:E2.
    { inversion H; subst. apply zlist_eqb_eq in E2. exists [tok]. split; [reflexivity|apply TV_false; assumption]. }
    destruct (zlist_eqb (tbytes tok) [110; 117; 108; 108]) eqn:E3; [|discriminate].
    inversion H; subst. apply zlist_eqb_eq in E3. exists [tok]. split; [reflexivity|apply TV_null; assumption].
  - (* string *)
    apply wrap_invalid_res in H. destruct H as [o [H ->]]. unfold parse_string in H.
    rewrite read_cons in H by (rewrite Et; discriminate).
    destruct (json_string_decode (tbytes tok)) as [s|] eqn:Ed; [|discriminate].
    destruct (utf8_valid (tbytes tok)) eqn:Eu; cbn [negb] in H; [|discriminate].
    inversion H; subst. exists [tok]. split; [reflexivity|apply TV_str; assumption].
  - (* number *)
    apply wrap_invalid_res in H. destruct H as [o [H ->]]. unfold parse_number in H.
    rewrite read_cons in H by (rewrite Et; discriminate).
    destruct (json_number_ok (tbytes tok)) eqn:En; cbn [negb] in H; [|discriminate].
    destruct (big_parse_ok (tbytes tok)) eqn:Eb; cbn [negb] in H; [|discriminate].
    destruct (number_value (tbytes tok)) as [m e] eqn:Ev. inversion H; subst.
    exists [tok]. split; [reflexivity|apply TV_num; assumption].
Qed.

(* ================================================================================== *)
(* C. acceptance                                                                        *)
(* ================================================================================== *)

(* ---- C1. a JSON text scans to a token sequence of the grammar ----------------------- *)

Lemma sc_ws_is_ws b : sc_ws b = is_ws b.
Proof. unfold sc_ws, is_ws. bdec. Qed.

Lemma scan_punct c ty rest off f tsr off' :
  punct_type c = Some ty -> off' = off + 1 ->
  jscan_fuel f off' rest = Some tsr ->
  jscan_fuel (S f) off (c :: rest) = Some (mkTok ty [c] off off' :: tsr).
Proof.
  intros Hp -> Hs. rewrite (jscan_tok f off (c :: rest) ty [c] rest (next_token_punct _ _ _ Hp)).
  - rewrite zlen_cons, zlen_nil. replace (off + (1 + 0)) with (off + 1) by lia. rewrite Hs. reflexivity.
  - simpl. unfold punct_type in Hp. unfold sc_ws.
    repeat match type of Hp with (if ?a =? ?b then _ else _) = _ =>
      destruct (Z.eqb_spec a b); [subst; reflexivity|] end. discriminate.
Qed.

Lemma scan_ws w r off f ts off' :
  WS w -> head_fails sc_ws r -> off' = off + zlen w ->
  jscan_fuel f off' r = Some ts -> jscan_fuel f off (w ++ r) = Some ts.
Proof. intros Hw Hr -> Hs. rewrite jscan_skip_ws; [exact Hs|apply sc_WS_WS; exact Hw|exact Hr]. Qed.

Lemma scan_token r ty tb rest off f tsr off' :
  next_token r = Some (ty, tb, rest) -> head_fails sc_ws r -> off' = off + zlen tb ->
  jscan_fuel f off' rest = Some tsr ->
  jscan_fuel (S f) off r = Some (mkTok ty tb off off' :: tsr).
Proof. intros Hn Hr -> Hs. rewrite (jscan_tok f off r ty tb rest Hn Hr). rewrite Hs. reflexivity. Qed.

Lemma follow_heads rest : follow_ok rest ->
  head_fails number_byte rest /\ head_fails keyword_byte rest.
Proof.
  destruct rest as [|b r]; simpl; [tauto|]. unfold ws_byte.
  intros [[->|[->|[->| ->]]]|[->|[->| ->]]]; split; reflexivity.
Qed.

Lemma value_head_nows bs v rest : Value bs v -> head_fails sc_ws (bs ++ rest).
Proof.
  intro H. destruct (Value_head _ _ H) as [b [r [-> Hb]]]. simpl. rewrite sc_ws_is_ws. apply vhead_nows. exact Hb.
Qed.

Lemma string_head_nows bs s rest : StringLit bs s -> head_fails sc_ws (bs ++ rest).
Proof. intro H. destruct (StringLit_head _ _ H) as [r ->]. reflexivity. Qed.

Lemma digits_number_bytes ds : Forall digit ds -> forallb number_byte ds = true.
Proof.
  induction 1 as [|d ds Hd _ IH]; [reflexivity|]. simpl. rewrite IH, andb_true_r.
  unfold number_byte. replace (sc_digit d) with true by (symmetry; apply sc_digit_true; exact Hd).
  rewrite !orb_true_r. reflexivity.
Qed.

Lemma Number_bytes nb m e : Number nb m e -> forallb number_byte nb = true.
Proof.
  assert (Hf : forall fp fds, FracPart fp fds -> forallb number_byte fp = true).
  { intros fp fds [|d ds Hds]; [reflexivity|]. change (46 :: d :: ds) with ([46] ++ d :: ds).
    rewrite forallb_app. rewrite (digits_number_bytes _ Hds). reflexivity. }
  assert (He : forall ep x, ExpPart ep x -> forallb number_byte ep = true).
  { intros ep x [|c d ds Hc Hds|c d ds Hc Hds|c d ds Hc Hds]; [reflexivity| | |].
    - change (c :: d :: ds) with ([c] ++ d :: ds). rewrite forallb_app, (digits_number_bytes _ Hds).
      destruct Hc as [->| ->]; reflexivity.
    - change (c :: 43 :: d :: ds) with ([c; 43] ++ d :: ds). rewrite forallb_app, (digits_number_bytes _ Hds).
      destruct Hc as [->| ->]; reflexivity.
    - change (c :: 45 :: d :: ds) with ([c; 45] ++ d :: ds). rewrite forallb_app, (digits_number_bytes _ Hds).
      destruct Hc as [->| ->]; reflexivity. }
  intros [ip fp fds ep x Hi Hfr Hex|ip fp fds ep x Hi Hfr Hex].
  - rewrite !forallb_app. rewrite (digits_number_bytes _ (IntPart_digits _ Hi)), (Hf _ _ Hfr), (He _ _ Hex). reflexivity.
  - change (45 :: ip ++ fp ++ ep) with ([45] ++ ip ++ fp ++ ep). rewrite !forallb_app.
    rewrite (digits_number_bytes _ (IntPart_digits _ Hi)), (Hf _ _ Hfr), (He _ _ Hex). reflexivity.
Qed.

Ltac zl := repeat (first [rewrite zlen_app | rewrite zlen_cons | rewrite zlen_nil]); lia.

Lemma scan_complete :
  (forall bs v, Value bs v -> forall rest off f tsr, follow_ok rest ->
     jscan_fuel f (off + zlen bs) rest = Some tsr ->
     exists ts f', jscan_fuel f' off (bs ++ rest) = Some (ts ++ tsr) /\ TokV ts v) /\
  (forall bs vs, Elements bs vs -> forall rest off f tsr,
     jscan_fuel f (off + zlen bs + 1) rest = Some tsr ->
     exists ts f', jscan_fuel f' off (bs ++ 93 :: rest) = Some (ts ++ tsr) /\ TokE ts vs) /\
  (forall bs ms, Members bs ms -> forall rest off f tsr,
     jscan_fuel f (off + zlen bs + 1) rest = Some tsr ->
     exists ts f', jscan_fuel f' off (bs ++ 125 :: rest) = Some (ts ++ tsr) /\ TokM ts ms).
Proof.
  apply json_mutind.
  - (* null *)
    intros rest off f tsr Hfo Hs. destruct (follow_heads _ Hfo) as [_ Hk].
    eexists [_], (S f). split.
    + apply (scan_token _ TKeyword kw_null rest); try exact Hs; try reflexivity.
      apply (next_token_keyword 110 [117; 108; 108]); [lia|reflexivity|exact Hk].
    + apply TV_null; reflexivity.
  - intros rest off f tsr Hfo Hs. destruct (follow_heads _ Hfo) as [_ Hk].
    eexists [_], (S f). split.
    + apply (scan_token _ TKeyword kw_true rest); try exact Hs; try reflexivity.
      apply (next_token_keyword 116 [114; 117; 101]); [lia|reflexivity|exact Hk].
    + apply TV_true; reflexivity.
  - intros rest off f tsr Hfo Hs. destruct (follow_heads _ Hfo) as [_ Hk].
    eexists [_], (S f). split.
    + apply (scan_token _ TKeyword kw_false rest); try exact Hs; try reflexivity.
      apply (next_token_keyword 102 [97; 108; 115; 101]); [lia|reflexivity|exact Hk].
    + apply TV_false; reflexivity.
  - (* number *)
    intros bs m e Hn rest off f tsr Hfo Hs. destruct (follow_heads _ Hfo) as [Hnb _].
    pose proof (Number_bytes _ _ _ Hn) as Hb. pose proof (value_head_nows _ _ rest (V_num _ _ _ Hn)) as Hh.
    destruct (Number_head _ _ _ Hn) as [b [r [E Hb0]]].
    eexists [_], (S f). split.
    + apply (scan_token _ TNumber bs rest); try assumption; try reflexivity; try eassumption.
      subst bs. apply next_token_number; [unfold digit in Hb0; tauto|exact Hb|exact Hnb].
    + apply TV_num; [reflexivity|apply (json_number_ok_complete _ _ _ Hn)|apply number_value_complete; exact Hn].
  - (* string *)
    intros bs s Hstr rest off f tsr _ Hs.
    pose proof (string_head_nows _ _ rest Hstr) as Hh. pose proof (json_string_decode_complete _ _ Hstr) as Hd.
    pose proof (StringLit_valid _ _ Hstr) as Hu.
    destruct Hstr as [items Hi].
    eexists [_], (S f). split.
    + apply (scan_token _ TString (34 :: flat_map item_bytes items ++ [34]) rest); try assumption; try reflexivity; try eassumption.
      apply next_token_string; exact Hi.
    + apply TV_str; [reflexivity|exact Hd|exact Hu].
  - (* [] *)
    intros w Hw rest off f tsr _ Hs.
    eexists [_; _], (S (S f)). split.
    + cbn [app]. rewrite <- app_assoc. cbn [app].
      apply (scan_punct 91 TBrackO); [reflexivity|reflexivity|].
      apply (scan_ws w (93 :: rest) (off + 1) (S f) _ (off + 1 + zlen w) Hw); [reflexivity|reflexivity|].
      apply (scan_punct 93 TBrackC); [reflexivity|reflexivity|].
      replace (off + 1 + zlen w + 1) with (off + zlen (91 :: w ++ [93])) by zl. exact Hs.
    + apply TV_arr0; reflexivity.
  - (* [ ... ] *)
    intros bs vs He IH rest off f tsr _ Hs.
    cbn [app] in *. rewrite <- app_assoc in *. cbn [app] in *.
    destruct (IH rest (off + 1) f tsr) as [ts [f' [H1 H2]]].
    { replace (off + 1 + zlen bs + 1) with (off + zlen (91 :: bs ++ [93])) by zl. exact Hs. }
    eexists (_ :: ts), (S f'). split.
    + cbn [app]. apply (scan_punct 91 TBrackO); [reflexivity|reflexivity|exact H1].
    + apply TV_arr; [reflexivity|exact H2].
  - (* {} *)
    intros w Hw rest off f tsr _ Hs.
    eexists [_; _], (S (S f)). split.
    + cbn [app]. rewrite <- app_assoc. cbn [app].
      apply (scan_punct 123 TBraceO); [reflexivity|reflexivity|].
      apply (scan_ws w (125 :: rest) (off + 1) (S f) _ (off + 1 + zlen w) Hw); [reflexivity|reflexivity|].
      apply (scan_punct 125 TBraceC); [reflexivity|reflexivity|].
      replace (off + 1 + zlen w + 1) with (off + zlen (123 :: w ++ [125])) by zl. exact Hs.
    + apply TV_obj0; reflexivity.
  - (* { ... } *)
    intros bs ms Hm IH rest off f tsr _ Hs.
    cbn [app] in *. rewrite <- app_assoc in *. cbn [app] in *.
    destruct (IH rest (off + 1) f tsr) as [ts [f' [H1 H2]]].
    { replace (off + 1 + zlen bs + 1) with (off + zlen (123 :: bs ++ [125])) by zl. exact Hs. }
    eexists (_ :: ts), (S f'). split.
    + cbn [app]. apply (scan_punct 123 TBraceO); [reflexivity|reflexivity|exact H1].
    + apply TV_obj; [reflexivity|exact H2].
  - (* one element *)
    intros w1 bs w2 v Hw1 Hv IH Hw2 rest off f tsr Hs.
    rewrite <- !app_assoc in *.
    assert (S3 : jscan_fuel (S f) (off + zlen w1 + zlen bs + zlen w2) (93 :: rest)
                 = Some (mkTok TBrackC [93] (off + zlen w1 + zlen bs + zlen w2) (off + zlen w1 + zlen bs + zlen w2 + 1) :: tsr)).
    { apply (scan_punct 93 TBrackC); [reflexivity|reflexivity|].
      replace (off + zlen w1 + zlen bs + zlen w2 + 1) with (off + zlen (w1 ++ bs ++ w2) + 1) by zl. exact Hs. }
    assert (S2 := scan_ws w2 (93 :: rest) (off + zlen w1 + zlen bs) (S f) _ _ Hw2 eq_refl eq_refl S3).
    assert (HF : follow_ok (w2 ++ 93 :: rest)) by (apply follow_ws; [exact Hw2|simpl; tauto]).
    destruct (IH _ _ _ _ HF S2) as [ts [f' [H1 H2]]].
    exists (ts ++ [mkTok TBrackC [93] (off + zlen w1 + zlen bs + zlen w2) (off + zlen w1 + zlen bs + zlen w2 + 1)]), f'.
    split; [|apply TE_one; [exact H2|reflexivity]].
    rewrite <- app_assoc. cbn [app].
    apply (scan_ws w1 _ off f' _ _ Hw1 (value_head_nows _ _ _ Hv) eq_refl H1).
  - (* more elements *)
    intros w1 bs w2 v erest vs Hw1 Hv IHv Hw2 He IHe rest off f tsr Hs.
    rewrite <- !app_assoc in *. cbn [app] in *. rewrite <- ?app_assoc in *.
    destruct (IHe rest (off + zlen w1 + zlen bs + zlen w2 + 1) f tsr) as [tse [fe [E1 E2]]].
    { replace (off + zlen w1 + zlen bs + zlen w2 + 1 + zlen erest + 1)
        with (off + zlen (w1 ++ bs ++ w2 ++ 44 :: erest) + 1) by zl. exact Hs. }
    assert (S3 := scan_punct 44 TComma _ (off + zlen w1 + zlen bs + zlen w2) fe _ _ eq_refl eq_refl E1).
    assert (S2 := scan_ws w2 (44 :: erest ++ 93 :: rest) (off + zlen w1 + zlen bs) (S fe) _ _ Hw2 eq_refl eq_refl S3).
    assert (HF : follow_ok (w2 ++ 44 :: erest ++ 93 :: rest)) by (apply follow_ws; [exact Hw2|simpl; tauto]).
    destruct (IHv _ _ _ _ HF S2) as [ts [f' [H1 H2]]].
    eexists (ts ++ _ :: tse), f'. split.
    + rewrite <- app_assoc. cbn [app].
      apply (scan_ws w1 _ off f' _ _ Hw1 (value_head_nows _ _ _ Hv) eq_refl H1).
    + apply TE_cons; [exact H2|reflexivity|exact E2].
  - (* one member *)
    intros w1 kb k w2 w3 bs w4 v Hw1 Hk Hw2 Hw3 Hv IH Hw4 rest off f tsr Hs.
    rewrite <- !app_assoc in *. cbn [app] in *. rewrite <- ?app_assoc in *.
    set (o1 := off + zlen w1). set (o2 := o1 + zlen kb). set (o3 := o2 + zlen w2).
    set (o4 := o3 + 1 + zlen w3). set (o5 := o4 + zlen bs). set (o6 := o5 + zlen w4).
    assert (S6 : jscan_fuel (S f) o6 (125 :: rest) = Some (mkTok TBraceC [125] o6 (o6 + 1) :: tsr)).
    { apply (scan_punct 125 TBraceC); [reflexivity|reflexivity|].
      replace (o6 + 1) with (off + zlen (w1 ++ kb ++ w2 ++ 58 :: w3 ++ bs ++ w4) + 1) by (unfold o6, o5, o4, o3, o2, o1; zl).
      exact Hs. }
    assert (S5 := scan_ws w4 (125 :: rest) o5 (S f) _ _ Hw4 eq_refl eq_refl S6).
    assert (HF : follow_ok (w4 ++ 125 :: rest)) by (apply follow_ws; [exact Hw4|simpl; tauto]).
    destruct (IH _ _ _ _ HF S5) as [ts [f1 [H1 H2]]].
    assert (S4 := scan_ws w3 _ (o3 + 1) f1 _ _ Hw3 (value_head_nows _ _ _ Hv) eq_refl H1).
    assert (S3 := scan_punct 58 TColon _ o3 f1 _ _ eq_refl eq_refl S4).
    assert (S2 := scan_ws w2 (58 :: w3 ++ bs ++ w4 ++ 125 :: rest) o2 (S f1) _ _ Hw2 eq_refl eq_refl S3).
    pose proof (json_string_decode_complete _ _ Hk) as Hd. pose proof (StringLit_valid _ _ Hk) as Hu.
    pose proof (string_head_nows _ _ (w2 ++ 58 :: w3 ++ bs ++ w4 ++ 125 :: rest) Hk) as Hh.
    destruct Hk as [items Hi].
    assert (S1 : jscan_fuel (S (S f1)) o1 ((34 :: flat_map item_bytes items ++ [34]) ++ w2 ++ 58 :: w3 ++ bs ++ w4 ++ 125 :: rest)
                 = Some (mkTok TString (34 :: flat_map item_bytes items ++ [34]) o1 o2 :: mkTok TColon [58] o3 (o3 + 1) :: ts ++ mkTok TBraceC [125] o6 (o6 + 1) :: tsr)).
    { apply (scan_token _ TString (34 :: flat_map item_bytes items ++ [34]) (w2 ++ 58 :: w3 ++ bs ++ w4 ++ 125 :: rest)); try assumption; try reflexivity; try eassumption.
      apply next_token_string; exact Hi. }
    eexists (_ :: _ :: ts ++ [_]), (S (S f1)). split.
    + apply (scan_ws w1 _ off _ _ o1 Hw1 Hh eq_refl).
      repeat (first [rewrite <- app_assoc | progress cbn [app]]).
      repeat (first [rewrite <- app_assoc in S1 | progress cbn [app] in S1]). exact S1.
    + apply TM_one; try reflexivity; assumption.
  - (* more members *)
    intros w1 kb k w2 w3 bs w4 v mrest ms Hw1 Hk Hw2 Hw3 Hv IHv Hw4 Hm IHm rest off f tsr Hs.
    rewrite <- !app_assoc in *. cbn [app] in *. rewrite <- ?app_assoc in *. cbn [app] in *. rewrite <- ?app_assoc in *.
    set (o1 := off + zlen w1). set (o2 := o1 + zlen kb). set (o3 := o2 + zlen w2).
    set (o4 := o3 + 1 + zlen w3). set (o5 := o4 + zlen bs). set (o6 := o5 + zlen w4).
    destruct (IHm rest (o6 + 1) f tsr) as [tsm [fm [E1 E2]]].
    { replace (o6 + 1 + zlen mrest + 1)
        with (off + zlen (w1 ++ kb ++ w2 ++ 58 :: w3 ++ bs ++ w4 ++ 44 :: mrest) + 1)
        by (unfold o6, o5, o4, o3, o2, o1; zl). exact Hs. }
    assert (S6 := scan_punct 44 TComma _ o6 fm _ _ eq_refl eq_refl E1).
    assert (S5 := scan_ws w4 (44 :: mrest ++ 125 :: rest) o5 (S fm) _ _ Hw4 eq_refl eq_refl S6).
    assert (HF : follow_ok (w4 ++ 44 :: mrest ++ 125 :: rest)) by (apply follow_ws; [exact Hw4|simpl; tauto]).
    destruct (IHv _ _ _ _ HF S5) as [ts [f1 [H1 H2]]].
    assert (S4 := scan_ws w3 _ (o3 + 1) f1 _ _ Hw3 (value_head_nows _ _ _ Hv) eq_refl H1).
    assert (S3 := scan_punct 58 TColon _ o3 f1 _ _ eq_refl eq_refl S4).
    assert (S2 := scan_ws w2 (58 :: w3 ++ bs ++ w4 ++ 44 :: mrest ++ 125 :: rest) o2 (S f1) _ _ Hw2 eq_refl eq_refl S3).
    pose proof (json_string_decode_complete _ _ Hk) as Hd. pose proof (StringLit_valid _ _ Hk) as Hu.
    pose proof (string_head_nows _ _ (w2 ++ 58 :: w3 ++ bs ++ w4 ++ 44 :: mrest ++ 125 :: rest) Hk) as Hh.
    destruct Hk as [items Hi].
    assert (S1 : jscan_fuel (S (S f1)) o1 ((34 :: flat_map item_bytes items ++ [34]) ++ w2 ++ 58 :: w3 ++ bs ++ w4 ++ 44 :: mrest ++ 125 :: rest)
                 = Some (mkTok TString (34 :: flat_map item_bytes items ++ [34]) o1 o2 :: mkTok TColon [58] o3 (o3 + 1) :: ts ++ mkTok TComma [44] o6 (o6 + 1) :: tsm ++ tsr)).
    { apply (scan_token _ TString (34 :: flat_map item_bytes items ++ [34]) (w2 ++ 58 :: w3 ++ bs ++ w4 ++ 44 :: mrest ++ 125 :: rest)); try assumption; try reflexivity; try eassumption.
      apply next_token_string; exact Hi. }
    eexists (_ :: _ :: ts ++ _ :: tsm), (S (S f1)). split.
    + apply (scan_ws w1 _ off _ _ o1 Hw1 Hh eq_refl).
      repeat (first [rewrite <- app_assoc | progress cbn [app]]).
      repeat (first [rewrite <- app_assoc in S1 | progress cbn [app] in S1]). exact S1.
    + apply TM_cons; try reflexivity; assumption.
Qed.

(* ---- C2. accept_complete ----------------------------------------------------------- *)

(* every number token is one big.ParseFloat accepts (its exponent is in range) *)
Definition go_numbers_ok (bs : list Z) : bool :=
  forallb (fun t => negb (jtype_eqb (tty t) TNumber) || big_parse_ok (tbytes t)) (jscan bs).

(* The property as stated (DESIGN.md C13): every JSON text is accepted with its value. *)
Definition accept_complete : Prop :=
  forall bs v, JsonText bs v -> jparse bs = JRes v [].

Lemma forallb_nums_ok ts :
  forallb (fun t => negb (jtype_eqb (tty t) TNumber) || big_parse_ok (tbytes t)) ts = true -> nums_ok ts.
Proof.
  intro H. unfold nums_ok. apply Forall_forall. intros t Ht Hty.
  rewrite forallb_forall in H. specialize (H t Ht). rewrite Hty in H. exact H.
Qed.

Theorem accept_complete_partial : forall bs v,
  JsonText bs v -> go_numbers_ok bs = true -> jparse bs = JRes v [].
Proof.
  intros bs v [w1 core w2 v' Hw1 Hv Hw2] Hn.
  assert (Se : jscan_fuel 1 (0 + zlen w1 + zlen core) w2 = Some [eof_tok (0 + zlen w1 + zlen core + zlen w2)]).
  { apply jscan_eof_ws. apply sc_WS_WS. exact Hw2. }
  assert (HF : follow_ok w2) by (destruct Hw2 as [|b w Hb _]; simpl; tauto).
  destruct (proj1 scan_complete _ _ Hv w2 (0 + zlen w1) 1%nat _ HF Se) as [ts [f' [H1 H2]]].
  assert (S0 := scan_ws w1 _ 0 f' _ _ Hw1 (value_head_nows _ _ _ Hv) eq_refl H1).
  assert (Ej : jscan (w1 ++ core ++ w2) = ts ++ [eof_tok (0 + zlen w1 + zlen core + zlen w2)])
    by (eapply jscan_opt_of_fuel; exact S0).
  unfold go_numbers_ok in Hn. rewrite Ej in Hn. rewrite forallb_app in Hn. apply andb_true_iff in Hn.
  destruct Hn as [Hn _]. apply forallb_nums_ok in Hn.
  unfold jparse, parse_tokens. rewrite Ej.
  rewrite (proj1 parse_complete _ _ H2 _ _ Hn) by (rewrite app_length; simpl; lia).
  reflexivity.
Qed.

(* ---- C3. accept_sound -------------------------------------------------------------- *)

Lemma Tiled_cons_inv off bs t tsr : Tiled off bs (t :: tsr) -> tty t <> TEOF -> tty t <> TInvalid ->
  exists w rest, bs = w ++ tbytes t ++ rest /\ WS w /\ lex_ok (tty t) (tbytes t) /\ Tiled (tend t) rest tsr.
Proof.
  intros H N1 N2. inversion H; subst.
  - exfalso. apply N1. reflexivity.
  - exfalso. apply N2. reflexivity.
  - exists w, rest. cbn [tbytes tty tend]. repeat split; try assumption. apply sc_WS_WS. assumption.
Qed.

Lemma punct_byte b ty : punct_type b = Some ty -> b = jtype_code ty.
Proof.
  unfold punct_type. intro H.
  repeat match type of H with (if ?a =? ?c then _ else _) = _ =>
    destruct (Z.eqb_spec a c); [inversion H; subst; reflexivity|] end. discriminate.
Qed.

Definition is_punct (ty : jtype) : Prop :=
  ty = TBrackO \/ ty = TBrackC \/ ty = TBraceO \/ ty = TBraceC \/ ty = TComma \/ ty = TColon.

Lemma tiled_punct off bs t tsr : Tiled off bs (t :: tsr) -> is_punct (tty t) ->
  exists w bs', bs = w ++ jtype_code (tty t) :: bs' /\ WS w /\ Tiled (tend t) bs' tsr.
Proof.
  intros H Hp.
  destruct (Tiled_cons_inv _ _ _ _ H) as [w [rest [E [Hw [Hl Ht]]]]];
    [destruct Hp as [->|[->|[->|[->|[->| ->]]]]]; discriminate
    |destruct Hp as [->|[->|[->|[->|[->| ->]]]]]; discriminate|].
  assert (Hb : exists b, tbytes t = [b] /\ punct_type b = Some (tty t))
    by (destruct Hp as [Hp|[Hp|[Hp|[Hp|[Hp|Hp]]]]]; rewrite Hp in *; exact Hl).
  destruct Hb as [b [Eb Hpb]]. apply punct_byte in Hpb. subst b. rewrite Eb in E.
  exists w, rest. repeat split; assumption.
Qed.

Lemma tiled_leaf off bs t tsr : Tiled off bs (t :: tsr) ->
  tty t = TKeyword \/ tty t = TNumber \/ tty t = TString ->
  exists w bs', bs = w ++ tbytes t ++ bs' /\ WS w /\ Tiled (tend t) bs' tsr.
Proof.
  intros H Hty.
  destruct (Tiled_cons_inv _ _ _ _ H) as [w [rest [E [Hw [Hl Ht]]]]];
    [destruct Hty as [-> |[-> | ->]]; discriminate|destruct Hty as [-> |[-> | ->]]; discriminate|].
  exists w, rest. repeat split; assumption.
Qed.

Lemma tiled_string off bs t tsr k : Tiled off bs (t :: tsr) -> tty t = TString ->
  json_string_decode (tbytes t) = Some k -> utf8_valid (tbytes t) = true ->
  exists w core w' bs', bs = w ++ core ++ w' ++ bs' /\ WS w /\ WS w' /\ StringLit core k /\
                        Tiled (tend t) bs' tsr.
Proof.
  intros H Hty Hd Hv.
  destruct (tiled_leaf _ _ _ _ H (or_intror (or_intror Hty))) as [w [rest [E [Hw Ht]]]].
  destruct (json_string_decode_sound _ _ Hd Hv) as [core [w' [Ec [Hw' Hs]]]].
  exists w, core, w', rest. repeat split; try assumption.
  rewrite E, Ec. rewrite <- app_assoc. reflexivity.
Qed.

Lemma tiled_sound :
  (forall ts v, TokV ts v -> forall off bs tsr, Tiled off bs (ts ++ tsr) ->
     exists w core w' bs' off', bs = w ++ core ++ w' ++ bs' /\ WS w /\ WS w' /\ Value core v /\
                                Tiled off' bs' tsr) /\
  (forall ts vs, TokE ts vs -> forall off bs tsr, Tiled off bs (ts ++ tsr) ->
     exists ebs bs' off', bs = ebs ++ 93 :: bs' /\ Elements ebs vs /\ Tiled off' bs' tsr) /\
  (forall ts ms, TokM ts ms -> forall off bs tsr, Tiled off bs (ts ++ tsr) ->
     exists mbs bs' off', bs = mbs ++ 125 :: bs' /\ Members mbs ms /\ Tiled off' bs' tsr).
Proof.
  apply tok_mutind.
  - (* null *) intros t Ht Hb off bs tsr HT. cbn [app] in HT.
    destruct (tiled_leaf _ _ _ _ HT (or_introl Ht)) as [w [bs' [E [Hw HT']]]].
    exists w, kw_null, [], bs', (tend t). rewrite Hb in E. repeat split; try assumption; [constructor|apply V_null].
  - intros t Ht Hb off bs tsr HT. cbn [app] in HT.
    destruct (tiled_leaf _ _ _ _ HT (or_introl Ht)) as [w [bs' [E [Hw HT']]]].
    exists w, kw_true, [], bs', (tend t). rewrite Hb in E. repeat split; try assumption; [constructor|apply V_true].
  - intros t Ht Hb off bs tsr HT. cbn [app] in HT.
    destruct (tiled_leaf _ _ _ _ HT (or_introl Ht)) as [w [bs' [E [Hw HT']]]].
    exists w, kw_false, [], bs', (tend t). rewrite Hb in E. repeat split; try assumption; [constructor|apply V_false].
  - (* number *) intros t m e Ht Hok Hval off bs tsr HT. cbn [app] in HT.
    destruct (json_number_ok_sound _ Hok) as [m' [e' Hn]].
    pose proof (number_value_complete _ _ _ Hn) as Hval'. rewrite Hval in Hval'. inversion Hval'; subst m' e'.
    destruct (tiled_leaf _ _ _ _ HT (or_intror (or_introl Ht))) as [w [bs' [E [Hw HT']]]].
    exists w, (tbytes t), [], bs', (tend t). repeat split; try assumption; [constructor|apply V_num; exact Hn].
  - (* string *) intros t s Ht Hd Hu off bs tsr HT. cbn [app] in HT.
    destruct (tiled_string _ _ _ _ _ HT Ht Hd Hu) as [w [core [w' [bs' [E [Hw [Hw' [Hs HT']]]]]]]].
    exists w, core, w', bs', (tend t). repeat split; try assumption. apply V_str. exact Hs.
  - (* [] *) intros o c Ho Hc off bs tsr HT. cbn [app] in HT.
    destruct (tiled_punct _ _ _ _ HT) as [w [bs1 [E1 [Hw HT1]]]]; [rewrite Ho; unfold is_punct; tauto|].
    destruct (tiled_punct _ _ _ _ HT1) as [w2 [bs2 [E2 [Hw2 HT2]]]]; [rewrite Hc; unfold is_punct; tauto|].
    rewrite Ho in E1. rewrite Hc in E2. cbn [jtype_code] in E1, E2.
    exists w, (91 :: w2 ++ [93]), [], bs2, (tend c). repeat split; try assumption; [|constructor|apply V_arr0; exact Hw2].
    rewrite E1, E2. cbn [app]. rewrite <- app_assoc. reflexivity.
  - (* [ ... ] *) intros o ts vs Ho He IH off bs tsr HT. cbn [app] in HT.
    destruct (tiled_punct _ _ _ _ HT) as [w [bs1 [E1 [Hw HT1]]]]; [rewrite Ho; unfold is_punct; tauto|].
    destruct (IH _ _ _ HT1) as [ebs [bs2 [off2 [E2 [Hel HT2]]]]].
    rewrite Ho in E1. cbn [jtype_code] in E1.
    exists w, (91 :: ebs ++ [93]), [], bs2, off2. repeat split; try assumption; [|constructor|apply V_arr; exact Hel].
    rewrite E1, E2. cbn [app]. rewrite <- app_assoc. reflexivity.
  - (* {} *) intros o c Ho Hc off bs tsr HT. cbn [app] in HT.
    destruct (tiled_punct _ _ _ _ HT) as [w [bs1 [E1 [Hw HT1]]]]; [rewrite Ho; unfold is_punct; tauto|].
    destruct (tiled_punct _ _ _ _ HT1) as [w2 [bs2 [E2 [Hw2 HT2]]]]; [rewrite Hc; unfold is_punct; tauto|].
    rewrite Ho in E1. rewrite Hc in E2. cbn [jtype_code] in E1, E2.
    exists w, (123 :: w2 ++ [125]), [], bs2, (tend c). repeat split; try assumption; [|constructor|apply V_obj0; exact Hw2].
    rewrite E1, E2. cbn [app]. rewrite <- app_assoc. reflexivity.
  - (* { ... } *) intros o ts ms Ho Hm IH off bs tsr HT. cbn [app] in HT.
    destruct (tiled_punct _ _ _ _ HT) as [w [bs1 [E1 [Hw HT1]]]]; [rewrite Ho; unfold is_punct; tauto|].
    destruct (IH _ _ _ HT1) as [mbs [bs2 [off2 [E2 [Hmm HT2]]]]].
    rewrite Ho in E1. cbn [jtype_code] in E1.
    exists w, (123 :: mbs ++ [125]), [], bs2, off2. repeat split; try assumption; [|constructor|apply V_obj; exact Hmm].
    rewrite E1, E2. cbn [app]. rewrite <- app_assoc. reflexivity.
  - (* last element *) intros ts v c Hv IH Hc off bs tsr HT. rewrite <- app_assoc in HT. cbn [app] in HT.
    destruct (IH _ _ _ HT) as [w [core [w' [bs1 [off1 [E1 [Hw [Hw' [Hcore HT1]]]]]]]]].
    destruct (tiled_punct _ _ _ _ HT1) as [w2 [bs2 [E2 [Hw2 HT2]]]]; [rewrite Hc; unfold is_punct; tauto|].
    rewrite Hc in E2. cbn [jtype_code] in E2.
    exists (w ++ core ++ w' ++ w2), bs2, (tend c). repeat split; try assumption.
    + rewrite E1, E2. repeat (first [rewrite <- app_assoc | progress cbn [app]]). reflexivity.
    + apply E_one; [exact Hw|exact Hcore|apply WS_app; assumption].
  - (* more elements *) intros ts v cm rest vs Hv IHv Hcm He IHe off bs tsr HT.
    rewrite <- app_assoc in HT. cbn [app] in HT.
    destruct (IHv _ _ _ HT) as [w [core [w' [bs1 [off1 [E1 [Hw [Hw' [Hcore HT1]]]]]]]]].
    destruct (tiled_punct _ _ _ _ HT1) as [w2 [bs2 [E2 [Hw2 HT2]]]]; [rewrite Hcm; unfold is_punct; tauto|].
    rewrite Hcm in E2. cbn [jtype_code] in E2.
    destruct (IHe _ _ _ HT2) as [ebs [bs3 [off3 [E3 [Hel HT3]]]]].
    exists (w ++ core ++ (w' ++ w2) ++ 44 :: ebs), bs3, off3. repeat split; try assumption.
    + rewrite E1, E2, E3. repeat (first [rewrite <- app_assoc | progress cbn [app]]). reflexivity.
    + apply E_cons; [exact Hw|exact Hcore|apply WS_app; assumption|exact Hel].
  - (* last member *) intros kt k col ts v c Hkt Hk Hku Hcol Hv IH Hc off bs tsr HT.
    cbn [app] in HT. rewrite <- app_assoc in HT. cbn [app] in HT.
    destruct (tiled_string _ _ _ _ _ HT Hkt Hk Hku) as [w1 [kb [w2 [bs1 [E1 [Hw1 [Hw2 [Hks HT1]]]]]]]].
    destruct (tiled_punct _ _ _ _ HT1) as [w2' [bs2 [E2 [Hw2' HT2]]]]; [rewrite Hcol; unfold is_punct; tauto|].
    rewrite Hcol in E2. cbn [jtype_code] in E2.
    destruct (IH _ _ _ HT2) as [w3 [core [w4 [bs3 [off3 [E3 [Hw3 [Hw4 [Hcore HT3]]]]]]]]].
    destruct (tiled_punct _ _ _ _ HT3) as [w4' [bs4 [E4 [Hw4' HT4]]]]; [rewrite Hc; unfold is_punct; tauto|].
    rewrite Hc in E4. cbn [jtype_code] in E4.
    exists (w1 ++ kb ++ (w2 ++ w2') ++ 58 :: w3 ++ core ++ (w4 ++ w4')), bs4, (tend c). repeat split; try assumption.
    + rewrite E1, E2, E3, E4. repeat (first [rewrite <- app_assoc | progress cbn [app]]). reflexivity.
    + apply M_one; try assumption; apply WS_app; assumption.
  - (* more members *) intros kt k col ts v cm rest ms Hkt Hk Hku Hcol Hv IHv Hcm Hm IHm off bs tsr HT.
    cbn [app] in HT. rewrite <- app_assoc in HT. cbn [app] in HT.
    destruct (tiled_string _ _ _ _ _ HT Hkt Hk Hku) as [w1 [kb [w2 [bs1 [E1 [Hw1 [Hw2 [Hks HT1]]]]]]]].
    destruct (tiled_punct _ _ _ _ HT1) as [w2' [bs2 [E2 [Hw2' HT2]]]]; [rewrite Hcol; unfold is_punct; tauto|].
    rewrite Hcol in E2. cbn [jtype_code] in E2.
    destruct (IHv _ _ _ HT2) as [w3 [core [w4 [bs3 [off3 [E3 [Hw3 [Hw4 [Hcore HT3]]]]]]]]].
    destruct (tiled_punct _ _ _ _ HT3) as [w4' [bs4 [E4 [Hw4' HT4]]]]; [rewrite Hcm; unfold is_punct; tauto|].
    rewrite Hcm in E4. cbn [jtype_code] in E4.
    destruct (IHm _ _ _ HT4) as [mbs [bs5 [off5 [E5 [Hmm HT5]]]]].
    exists (w1 ++ kb ++ (w2 ++ w2') ++ 58 :: w3 ++ core ++ (w4 ++ w4') ++ 44 :: mbs), bs5, off5. repeat split; try assumption.
    + rewrite E1, E2, E3, E4, E5. repeat (first [rewrite <- app_assoc | progress cbn [app]]). reflexivity.
    + apply M_cons; try assumption; apply WS_app; assumption.
Qed.

Lemma parse_tokens_accept ts v : parse_tokens ts = JRes v [] ->
  exists t r, parse_value (S (length ts)) ts = Res v [] (t :: r) /\ tty t = TEOF.
Proof.
  unfold parse_tokens. destruct (parse_value (S (length ts)) ts) as [v' ds rest| |]; try discriminate.
  destruct ds as [|d ds'].
  - destruct rest as [|t r]; [discriminate|]. destruct (is_eof t) eqn:Ee; [|discriminate].
    intro H; inversion H; subst. exists t, r. split; [reflexivity|]. apply jtype_eqb_eq. exact Ee.
  - destruct rest; discriminate.
Qed.

(* The property as stated, in full: whatever the parser accepts is a JSON text,
   and the node is the value the grammar assigns (duplicates in order, numbers
   exact).  (False before /repo 0784545: "\xff" was accepted.) *)
Theorem accept_sound : forall bs v, jparse bs = JRes v [] -> JsonText bs v.
Proof.
  intros bs v H. unfold jparse in H.
  destruct (parse_tokens_accept _ _ H) as [t [r [Hp Ht]]].
  destruct (parse_sound _ _ _ _ Hp) as [pre [E Htok]].
  pose proof (jscan_tiled bs) as HT. rewrite E in HT.
  destruct (proj1 tiled_sound _ _ Htok _ _ _ HT) as [w [core [w' [bs' [off' [Eb [Hw [Hw' [Hcore HT']]]]]]]]].
  assert (Hws : WS bs').
  { inversion HT'; subst.
    - apply sc_WS_WS. assumption.
    - discriminate.
    - exfalso. cbn [tty] in Ht. subst ty. assumption. }
  rewrite Eb. rewrite (app_assoc core w' bs'). rewrite <- (app_assoc core). apply Text; [exact Hw|exact Hcore|].
  apply WS_app; assumption.
Qed.

(* ---- C4. the remaining refutation (vm_compute on the faithful model) ------------------ *)

(* 1e99999999999 : a JSON text; big.ParseFloat reports exponent overflow and
   parseNumber answers "Invalid JSON number" *)
Theorem accept_complete_refuted_exponent : ~ accept_complete.
Proof.
  intro H.
  assert (Ht : JsonText [49; 101; 57; 57; 57; 57; 57; 57; 57; 57; 57; 57; 57] (JNum 1 99999999999)).
  { apply json_text_dec_sound. vm_compute. reflexivity. }
  apply H in Ht. vm_compute in Ht. discriminate.
Qed.

(* the former witnesses are now handled correctly *)
Example former_witness_invalid_utf8 : jparse [34; 255; 34] = JRes JInvalid [DInvalidString].
Proof. vm_compute. reflexivity. Qed.

Example former_witness_prepend :
  jparse [91; 34; 216; 128; 34; 44; 48; 93] = JRes (JArr [JStr [216; 128]; JNum 0 0]) [].
Proof. vm_compute. reflexivity. Qed.

(* ================================================================================== *)
(* D. totality: with fuel = number of tokens + 1 the parser never runs out of fuel     *)
(*    and never indexes the token slice out of range, on any input                     *)
(* ================================================================================== *)

Definition noeof (t : jtoken) : Prop := tty t <> TEOF.

(* a token list as scan produces it: non-EOF tokens followed by one EOF *)
Definition wf (ts : list jtoken) : Prop :=
  exists pre e, ts = pre ++ [e] /\ tty e = TEOF /\ Forall noeof pre.

Lemma wf_cons_inv t r : wf (t :: r) -> (tty t = TEOF /\ r = []) \/ (tty t <> TEOF /\ wf r).
Proof.
  intros [pre [e [E [He Hp]]]]. destruct pre as [|p pre'].
  - cbn [app] in E. inversion E; subst. left. split; [exact He|reflexivity].
  - cbn [app] in E. inversion E; subst. inversion Hp; subst. right. split; [assumption|].
    exists pre', e. repeat split; assumption.
Qed.

Lemma wf_length ts : wf ts -> (1 <= length ts)%nat.
Proof. intros [pre [e [-> _]]]. rewrite app_length. simpl. lia. Qed.

Lemma is_eof_false t : tty t <> TEOF -> is_eof t = false.
Proof. intro H. unfold is_eof. apply jtype_eqb_neq. exact H. Qed.

Lemma is_eof_true t : tty t = TEOF -> is_eof t = true.
Proof. intro H. unfold is_eof. apply jtype_eqb_eq. exact H. Qed.

Lemma read_wf ts : wf ts ->
  exists t r ts', ts = t :: r /\ read ts = Some (t, ts') /\ wf ts' /\ (length ts' <= length ts)%nat /\
                  (tty t <> TEOF -> ts' = r).
Proof.
  intro H. destruct ts as [|t r]; [apply wf_length in H; simpl in H; lia|].
  destruct (wf_cons_inv _ _ H) as [[He ->]|[Hn Hr]].
  - exists t, [], [t]. unfold read. rewrite (is_eof_true _ He). repeat split; try assumption; try lia. contradiction.
  - exists t, r, r. unfold read. rewrite (is_eof_false _ Hn). repeat split; try assumption. simpl. lia.
Qed.

Definition okres {A} (n : nat) (r : pres A) : Prop :=
  exists a ds rest, r = Res a ds rest /\ wf rest /\ (length rest <= n)%nat.

Lemma okres_le {A} n m (r : pres A) : okres n r -> (n <= m)%nat -> okres m r.
Proof. intros [a [ds [rest [E [H1 H2]]]]] L. exists a, ds, rest. repeat split; try assumption. lia. Qed.

Lemma okres_res {A} n (a : A) ds rest : wf rest -> (length rest <= n)%nat -> okres n (Res a ds rest).
Proof. intros. exists a, ds, rest. repeat split; assumption. Qed.

Lemma obj_recover_ok : forall ts, wf ts -> forall tok open,
  exists ts', obj_recover tok ts open = Some ts' /\ wf ts' /\ (length ts' <= length ts)%nat.
Proof.
  induction ts as [|t r IH]; intros Hw tok open; [apply wf_length in Hw; simpl in Hw; lia|].
  assert (Hnext : forall o, exists ts', (if is_eof t then Some (t :: r) else obj_recover t r o) = Some ts' /\
                                   wf ts' /\ (length ts' <= length (t :: r))%nat).
  { intro o. destruct (wf_cons_inv _ _ Hw) as [[He ->]|[Hn Hr]].
    - rewrite (is_eof_true _ He). exists [t]. repeat split; [exact Hw|lia].
    - rewrite (is_eof_false _ Hn). destruct (IH Hr t o) as [ts' [E [H1 H2]]].
      exists ts'. repeat split; try assumption. simpl. lia. }
  cbn [obj_recover]. destruct (tty tok); try apply Hnext.
  - destruct (open - 1 <=? 1); [|apply Hnext]. exists (t :: r). repeat split; [exact Hw|lia].
  - exists (t :: r). repeat split; [exact Hw|lia].
Qed.

Lemma arr_recover_ok : forall ts, wf ts -> forall tok open,
  exists ts', arr_recover tok ts open = Some ts' /\ wf ts' /\ (length ts' <= length ts)%nat.
Proof.
  induction ts as [|t r IH]; intros Hw tok open; [apply wf_length in Hw; simpl in Hw; lia|].
  assert (Hnext : forall o, exists ts', (if is_eof t then Some (t :: r) else arr_recover t r o) = Some ts' /\
                                   wf ts' /\ (length ts' <= length (t :: r))%nat).
  { intro o. destruct (wf_cons_inv _ _ Hw) as [[He ->]|[Hn Hr]].
    - rewrite (is_eof_true _ He). exists [t]. repeat split; [exact Hw|lia].
    - rewrite (is_eof_false _ Hn). destruct (IH Hr t o) as [ts' [E [H1 H2]]].
      exists ts'. repeat split; try assumption. simpl. lia. }
  cbn [arr_recover]. destruct (tty tok); try apply Hnext.
  - destruct (open - 1 <=? 1); [|apply Hnext]. exists (t :: r). repeat split; [exact Hw|lia].
  - exists (t :: r). repeat split; [exact Hw|lia].
Qed.

Lemma after_recover_ok n ts' ds : wf ts' -> (length ts' <= n)%nat -> okres n (after_recover (Some ts') ds).
Proof.
  intros Hw Hl. unfold after_recover. destruct ts' as [|t r]; [apply wf_length in Hw; simpl in Hw; lia|].
  apply okres_res; assumption.
Qed.

(* read, then recover, then the error exit *)
Lemma read_recover_obj_ok ts ds n : wf ts -> (length ts <= n)%nat ->
  okres n (match read ts with
           | Some (t, ts4) => after_recover (obj_recover t ts4 1) ds
           | None => Panic
           end).
Proof.
  intros Hw Hl. destruct (read_wf _ Hw) as [t [r [ts' [_ [Er [Hw' [Hl' _]]]]]]]. rewrite Er.
  destruct (obj_recover_ok _ Hw' t 1) as [ts3 [E3 [Hw3 Hl3]]]. rewrite E3. apply after_recover_ok; [exact Hw3|lia].
Qed.

Lemma read_recover_arr_ok ts ds n : wf ts -> (length ts <= n)%nat ->
  okres n (match read ts with
           | Some (t, ts2) => after_recover (arr_recover t ts2 1) ds
           | None => Panic
           end).
Proof.
  intros Hw Hl. destruct (read_wf _ Hw) as [t [r [ts' [_ [Er [Hw' [Hl' _]]]]]]]. rewrite Er.
  destruct (arr_recover_ok _ Hw' t 1) as [ts3 [E3 [Hw3 Hl3]]]. rewrite E3. apply after_recover_ok; [exact Hw3|lia].
Qed.

Section LoopTotal.
  Variable pv : list jtoken -> pres jvalue.
  Variable n : nat.
  Hypothesis pv_ok : forall ts, wf ts -> (length ts <= n)%nat -> okres (length ts) (pv ts).

  Lemma arr_loop_ok : forall g ts acc ds, wf ts -> (length ts <= n)%nat -> (g >= length ts)%nat ->
    okres (length ts) (arr_loop pv g ts acc ds).
  Proof.
    induction g as [|g IH]; intros ts acc ds Hw Hn Hg; [apply wf_length in Hw; lia|].
    cbn [arr_loop]. destruct ts as [|t0 r0] eqn:Ets; [apply wf_length in Hw; simpl in Hw; lia|]. rewrite <- Ets in *.
    destruct (jtype_eqb (tty t0) TBrackC).
    { destruct (read_wf _ Hw) as [t [r [ts' [_ [Er [Hw' [Hl' _]]]]]]]. rewrite Er. apply okres_res; assumption. }
    destruct (pv_ok _ Hw Hn) as [v [vd [ts1 [Ev [Hw1 Hl1]]]]]. rewrite Ev.
    destruct ts1 as [|t1 r1] eqn:Ets1; [apply wf_length in Hw1; simpl in Hw1; lia|]. rewrite <- Ets1 in *.
    destruct (tty t1) eqn:Et1;
      try (apply read_recover_arr_ok; [exact Hw1|exact Hl1]).
    - (* ] *) destruct (read_wf _ Hw1) as [t [r [ts' [_ [Er [Hw' [Hl' _]]]]]]]. rewrite Er.
      apply okres_res; [exact Hw'|lia].
    - (* , *) destruct (read_wf _ Hw1) as [t [r [ts2 [E1 [Er [Hw2 [Hl2 Hr2]]]]]]]. rewrite Er.
      assert (Htt : t = t1) by (rewrite Ets1 in E1; inversion E1; reflexivity). subst t.
      assert (E2 : ts2 = r) by (apply Hr2; rewrite Et1; discriminate).
      assert (L2 : S (length ts2) = length ts1) by (rewrite E1, E2; reflexivity).
      destruct ts2 as [|t2 r2] eqn:Ets2; [apply wf_length in Hw2; simpl in Hw2; lia|]. rewrite <- Ets2 in *.
      destruct (jtype_eqb (tty t2) TBrackC).
      + apply okres_res; [exact Hw2|lia].
      + eapply okres_le; [apply IH; [exact Hw2|lia|lia]|lia].
    - (* EOF *) destruct (read_wf _ Hw1) as [t [r [ts2 [_ [Er [Hw2 [Hl2 _]]]]]]]. rewrite Er.
      destruct (arr_recover_ok _ Hw2 t 1) as [ts3 [E3 [Hw3 Hl3]]]. rewrite E3. apply okres_res; [exact Hw3|lia].
  Qed.

  Lemma obj_loop_ok : forall g ts acc ds, wf ts -> (length ts <= n)%nat -> (g >= length ts)%nat ->
    okres (length ts) (obj_loop pv g ts acc ds).
  Proof.
    induction g as [|g IH]; intros ts acc ds Hw Hn Hg; [apply wf_length in Hw; lia|].
    cbn [obj_loop]. destruct ts as [|t0 r0] eqn:Ets; [apply wf_length in Hw; simpl in Hw; lia|]. rewrite <- Ets in *.
    destruct (jtype_eqb (tty t0) TBraceC).
    { destruct (read_wf _ Hw) as [t [r [ts' [_ [Er [Hw' [Hl' _]]]]]]]. rewrite Er. apply okres_res; assumption. }
    destruct (pv_ok _ Hw Hn) as [key [kd [ts1 [Ek [Hw1 Hl1]]]]]. rewrite Ek.
    destruct key as [| | |k| | |]; try (apply okres_res; assumption).
    destruct (read_wf _ Hw1) as [colon [rc [ts2 [E1 [Er [Hw2 [Hl2 Hr2]]]]]]]. rewrite Er.
    destruct (jtype_eqb (tty colon) TColon) eqn:Ec; cbn [negb].
    2:{ destruct (obj_recover_ok _ Hw2 colon 1) as [ts3 [E3 [Hw3 Hl3]]]. rewrite E3. apply after_recover_ok; [exact Hw3|lia]. }
    apply jtype_eqb_eq in Ec.
    assert (E2 : ts2 = rc) by (apply Hr2; rewrite Ec; discriminate).
    assert (L2 : S (length ts2) = length ts1) by (rewrite E1, E2; reflexivity).
    destruct (pv_ok _ Hw2 ltac:(lia)) as [v [vd [ts3 [Ev [Hw3 Hl3]]]]]. rewrite Ev.
    destruct ts3 as [|t3 r3] eqn:Ets3; [apply wf_length in Hw3; simpl in Hw3; lia|]. rewrite <- Ets3 in *.
    destruct (tty t3) eqn:Et3;
      try (apply read_recover_obj_ok; [exact Hw3|lia]).
    - (* } *) destruct (read_wf _ Hw3) as [t [r [ts' [_ [Er' [Hw' [Hl' _]]]]]]]. rewrite Er'.
      apply okres_res; [exact Hw'|lia].
    - (* ] *) destruct (read_wf _ Hw3) as [t [r [ts4 [_ [Er' [Hw4 [Hl4 _]]]]]]]. rewrite Er'.
      destruct ts4 as [|t4 r4] eqn:Ets4; [apply wf_length in Hw4; simpl in Hw4; lia|]. rewrite <- Ets4 in *.
      apply okres_res; [exact Hw4|lia].
    - (* , *) destruct (read_wf _ Hw3) as [t [r [ts4 [E3 [Er' [Hw4 [Hl4 Hr4]]]]]]]. rewrite Er'.
      assert (Htt : t = t3) by (rewrite Ets3 in E3; inversion E3; reflexivity). subst t.
      assert (E4 : ts4 = r) by (apply Hr4; rewrite Et3; discriminate).
      assert (L4 : S (length ts4) = length ts3) by (rewrite E3, E4; reflexivity).
      destruct ts4 as [|t4 r4] eqn:Ets4; [apply wf_length in Hw4; simpl in Hw4; lia|]. rewrite <- Ets4 in *.
      destruct (jtype_eqb (tty t4) TBraceC).
      + apply okres_res; [exact Hw4|lia].
      + eapply okres_le; [apply IH; [exact Hw4|lia|lia]|lia].
    - (* EOF *) apply okres_res; [exact Hw3|lia].
  Qed.
End LoopTotal.

Lemma wrap_invalid_ok n r : okres n r -> okres n (wrap_invalid r).
Proof.
  intros [o [ds [rest [-> [H1 H2]]]]]. destruct o; simpl; apply okres_res; assumption.
Qed.

Lemma leaf_ok ts (F : jtoken -> list jtoken -> pres (option jvalue)) :
  wf ts -> (forall t rest, exists o ds, F t rest = Res o ds rest) ->
  okres (length ts) (match read ts with Some (tok, rest) => F tok rest | None => Panic end).
Proof.
  intros Hw HF. destruct (read_wf _ Hw) as [t [r [ts' [_ [Er [Hw' [Hl' _]]]]]]]. rewrite Er.
  destruct (HF t ts') as [o [ds E]]. rewrite E. apply okres_res; assumption.
Qed.

Lemma parse_value_ok : forall f ts, wf ts -> (f > length ts)%nat -> okres (length ts) (parse_value f ts).
Proof.
  induction f as [|f IH]; intros ts Hw Hf; [lia|].
  cbn [parse_value]. destruct ts as [|tok r] eqn:Ets; [apply wf_length in Hw; simpl in Hw; lia|]. rewrite <- Ets in *.
  assert (Hcont : tty tok <> TEOF -> exists ts1, read ts = Some (tok, ts1) /\ wf ts1 /\ S (length ts1) = length ts).
  { intro Hn. destruct (read_wf _ Hw) as [t [r' [ts1 [E1 [Er [Hw1 [Hl1 Hr1]]]]]]].
    assert (Ett : t = tok /\ r' = r) by (rewrite Ets in E1; inversion E1; split; reflexivity).
    destruct Ett as [-> ->]. specialize (Hr1 Hn). subst ts1. exists r. split; [exact Er|].
    split; [exact Hw1|]. rewrite Ets. reflexivity. }
  destruct (tty tok) eqn:Et; try (apply okres_res; [exact Hw|lia]).
  - (* object *) apply wrap_invalid_ok. unfold parse_object.
    destruct (Hcont ltac:(discriminate)) as [ts1 [Er [Hw1 L1]]]. rewrite Er.
    eapply okres_le; [apply (obj_loop_ok _ (length ts1)); [|exact Hw1|lia|lia]|lia].
    intros ts' Hw' Hl'. apply IH; [exact Hw'|lia].
  - (* array *) apply wrap_invalid_ok. unfold parse_array.
    destruct (Hcont ltac:(discriminate)) as [ts1 [Er [Hw1 L1]]]. rewrite Er.
    eapply okres_le; [apply (arr_loop_ok _ (length ts1)); [|exact Hw1|lia|lia]|lia].
    intros ts' Hw' Hl'. apply IH; [exact Hw'|lia].
  - (* keyword *) apply wrap_invalid_ok. unfold parse_keyword. apply leaf_ok; [exact Hw|].
    intros t rest. destruct (zlist_eqb (tbytes t) [116; 114; 117; 101]); [do 2 eexists; reflexivity|].
    destruct (zlist_eqb (tbytes t) [102; 97; 108; 115; 101]); [do 2 eexists; reflexivity|].
    destruct (zlist_eqb (tbytes t) [110; 117; 108; 108]); do 2 eexists; reflexivity.
  - (* string *) apply wrap_invalid_ok. unfold parse_string. apply leaf_ok; [exact Hw|].
    intros t rest. destruct (json_string_decode (tbytes t)); [|do 2 eexists; reflexivity].
    destruct (negb (utf8_valid (tbytes t))); do 2 eexists; reflexivity.
  - (* number *) apply wrap_invalid_ok. unfold parse_number. apply leaf_ok; [exact Hw|].
    intros t rest. destruct (negb (json_number_ok (tbytes t))); [do 2 eexists; reflexivity|].
    destruct (negb (big_parse_ok (tbytes t))); [do 2 eexists; reflexivity|].
    destruct (number_value (tbytes t)). do 2 eexists; reflexivity.
Qed.

Lemma jscan_wf bs : wf (jscan bs).
Proof.
  destruct (jscan_eof bs) as [pre [e [E [He Hp]]]]. exists pre, e. repeat split; assumption.
Qed.

(* json.ParseExpression / json.Parse always return a node and diagnostics *)
Theorem jparse_total bs : exists v ds, jparse bs = JRes v ds.
Proof.
  unfold jparse, parse_tokens.
  destruct (parse_value_ok (S (length (jscan bs))) (jscan bs) (jscan_wf bs) ltac:(lia))
    as [v [ds [rest [E [Hw Hl]]]]].
  rewrite E. destruct ds as [|d ds'].
  - destruct rest as [|t r]; [apply wf_length in Hw; simpl in Hw; lia|].
    destruct (is_eof t); eexists; eexists; reflexivity.
  - destruct rest; eexists; eexists; reflexivity.
Qed.

Corollary jparse_file_total bs : exists v ds, jparse_file bs = JRes v ds.
Proof.
  unfold jparse_file. destruct (jparse_total bs) as [v [ds E]]. rewrite E.
  destruct v; eexists; eexists; reflexivity.
Qed.

(* ================================================================================== *)
(* E. a JSON text is valid UTF-8 (the hypothesis of accept_sound_partial is necessary) *)
(* ================================================================================== *)

Lemma WS_ascii w : WS w -> Forall (fun b => b < 128) w.
Proof. unfold WS. apply Forall_impl. intros a H. unfold ws_byte in H. lia. Qed.

Lemma number_byte_ascii b : number_byte b = true -> b < 128.
Proof.
  unfold number_byte, sc_digit. intro H.
  repeat (apply orb_true_iff in H; destruct H as [H|H]); try (apply Z.eqb_eq in H; lia).
  apply andb_true_iff in H. destruct H as [_ H]. apply Z.leb_le in H. lia.
Qed.

Lemma WS_valid w : WS w -> utf8_valid w = true.
Proof. intro H. apply ascii_valid. apply WS_ascii. exact H. Qed.

Lemma Number_valid bs m e : Number bs m e -> utf8_valid bs = true.
Proof.
  intro H. apply ascii_valid. apply Forall_forall. intros b Hb. apply number_byte_ascii.
  pose proof (Number_bytes _ _ _ H) as Hn. rewrite forallb_forall in Hn. apply Hn. exact Hb.
Qed.

Ltac valid_apps :=
  repeat first
    [ assumption
    | (apply WS_valid; assumption)
    | (eapply StringLit_valid; eassumption)
    | (apply utf8_valid_app; [|])
    | reflexivity ].

Lemma Value_valid :
  (forall bs v, Value bs v -> utf8_valid bs = true) /\
  (forall bs vs, Elements bs vs -> utf8_valid bs = true) /\
  (forall bs ms, Members bs ms -> utf8_valid bs = true).
Proof.
  apply json_mutind.
  - reflexivity.
  - reflexivity.
  - reflexivity.
  - intros bs m e H. eapply Number_valid. exact H.
  - intros bs s H. eapply StringLit_valid. exact H.
  - intros w Hw. change (91 :: w ++ [93]) with ([91] ++ w ++ [93]). valid_apps.
  - intros bs vs _ IH. change (91 :: bs ++ [93]) with ([91] ++ bs ++ [93]). valid_apps.
  - intros w Hw. change (123 :: w ++ [125]) with ([123] ++ w ++ [125]). valid_apps.
  - intros bs ms _ IH. change (123 :: bs ++ [125]) with ([123] ++ bs ++ [125]). valid_apps.
  - intros w1 bs w2 v Hw1 _ IH Hw2. valid_apps.
  - intros w1 bs w2 v rest vs Hw1 _ IHv Hw2 _ IHe.
    change (44 :: rest) with ([44] ++ rest). valid_apps.
  - intros w1 kb k w2 w3 bs w4 v Hw1 Hk Hw2 Hw3 _ IH Hw4.
    change (58 :: w3 ++ bs ++ w4) with ([58] ++ w3 ++ bs ++ w4). valid_apps.
  - intros w1 kb k w2 w3 bs w4 v rest ms Hw1 Hk Hw2 Hw3 _ IHv Hw4 _ IHm.
    change (58 :: w3 ++ bs ++ w4 ++ 44 :: rest) with ([58] ++ w3 ++ bs ++ w4 ++ [44] ++ rest). valid_apps.
Qed.

Theorem JsonText_utf8_valid bs v : JsonText bs v -> utf8_valid bs = true.
Proof.
  intros [w1 core w2 v' Hw1 Hv Hw2]. pose proof (proj1 Value_valid _ _ Hv). valid_apps.
Qed.

(* acceptance, when every number is within big.Float's exponent range, is exactly JSON *)
Corollary accept_iff bs v : go_numbers_ok bs = true -> (jparse bs = JRes v [] <-> JsonText bs v).
Proof.
  intros Hn. split; [apply accept_sound|intro H; apply accept_complete_partial; assumption].
Qed.

(* ================================================================================== *)
(* F. literal mapping, end to end                                                       *)
(* ================================================================================== *)

From HclV Require Import Json.Literal.

(* The literal value of an accepted (valid UTF-8) text is the spec mapping
   (Literal.value_of) of the JSON value the RFC 8259 grammar assigns to the text. *)
Theorem literal_mapping bs v :
  jparse bs = JRes v [] -> exists vref, JsonText bs vref /\ value_of v = value_of vref.
Proof. intros H. exists v. split; [apply accept_sound; assumption|reflexivity]. Qed.

Theorem literal_mapping_complete bs vref :
  JsonText bs vref -> go_numbers_ok bs = true ->
  exists v, jparse bs = JRes v [] /\ value_of v = value_of vref.
Proof. intros H Hn. exists vref. split; [apply accept_complete_partial; assumption|reflexivity]. Qed.
