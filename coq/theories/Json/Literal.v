(* Json/Literal.v — the literal-only mapping of json/spec.md, section
   Expressions (= expression.Value with ctx == nil, json/structure.go):
     string  -> the exact sequence of characters, template sequences untouched
     number  -> the number at full decimal precision (exact: m * 10^e)
     bool    -> bool
     null    -> null of the dynamic pseudo-type
     array   -> tuple, indices preserved
     object  -> object; defining the same property name twice is an error
   Definitions only.  A small local value type; no dependency on other
   properties' files.  (cty additionally NFC-normalises strings; that is outside
   this mapping and is reported by the harness when it changes a string.) *)
From HclV Require Import Base.Prelude Json.Rfc8259.

Inductive lvalue :=
| LString (s : list Z)
| LNumber (m e : Z)                        (* m * 10^e *)
| LBool (b : bool)
| LNullDyn                                 (* cty.NullVal(cty.DynamicPseudoType) *)
| LTuple (vs : list lvalue)
| LObject (attrs : list (list Z * lvalue)) (* source order, names distinct *)
| LDynUnknown.                             (* cty.DynamicVal, for json.invalidVal *)

Inductive lresult :=
| LOk (v : lvalue)
| LError.                                  (* evaluation produced error diagnostics *)

Fixpoint mem_key (k : list Z) (ks : list (list Z)) : bool :=
  match ks with
  | [] => false
  | k' :: r => zlist_eqb k k' || mem_key k r
  end.

Fixpoint has_dup (ks : list (list Z)) : bool :=
  match ks with
  | [] => false
  | k :: r => mem_key k r || has_dup r
  end.

(* all elements evaluated without error *)
Fixpoint collect (rs : list lresult) : option (list lvalue) :=
  match rs with
  | [] => Some []
  | LOk v :: r => match collect r with Some vs => Some (v :: vs) | None => None end
  | LError :: _ => None
  end.

Fixpoint collect_attrs (rs : list (list Z * lresult)) : option (list (list Z * lvalue)) :=
  match rs with
  | [] => Some []
  | (k, LOk v) :: r => match collect_attrs r with Some vs => Some ((k, v) :: vs) | None => None end
  | (_, LError) :: _ => None
  end.

(* array -> tuple: element i of the array is element i of the tuple *)
Definition tuple_of (rs : list lresult) : lresult :=
  match collect rs with Some l => LOk (LTuple l) | None => LError end.

(* object -> object; the same name twice is an error *)
Definition object_of (rs : list (list Z * lresult)) : lresult :=
  match collect_attrs rs with
  | Some l => if has_dup (map fst l) then LError else LOk (LObject l)
  | None => LError
  end.

Fixpoint value_of (j : jvalue) : lresult :=
  match j with
  | JNull => LOk LNullDyn
  | JBool b => LOk (LBool b)
  | JNum m e => LOk (LNumber m e)
  | JStr s => LOk (LString s)
  | JArr vs => tuple_of (map value_of vs)
  | JObj ms => object_of (map (fun kv => (fst kv, value_of (snd kv))) ms)
  | JInvalid => LOk LDynUnknown
  end.

(* ---- property names are HCL strings ---------------------------------------------------
   json/structure.go (expression.Value, case *objectVal) turns every property name into a
   cty string BEFORE the duplicate check, in literal-only mode (ctx == nil) exactly as in
   full-expression mode, and cty strings are compared after NFC normalisation.  Two names
   that are different byte strings but the same HCL string (U+00E9 / U+0065 U+0301, U+212B /
   U+00C5, a Hangul syllable / its conjoining jamo) therefore define the same attribute
   twice: an error, like {"a":1,"a":2}.
   [nf] is that normalisation.  It is a PARAMETER here (the Unicode tables belong to a
   pinned dependency): the theorems of LiteralProofs.v hold for every nf, the checker
   (JsonCheck.v) receives nf on the names of each case, computed independently of the code
   under test.  value_of is value_of_nf at the identity (LiteralProofs.value_of_nf_id), and
   an error of value_of is an error of value_of_nf for every nf (value_of_nf_error_mono). *)
Definition object_of_nf (nf : list Z -> list Z) (rs : list (list Z * lresult)) : lresult :=
  match collect_attrs rs with
  | Some l => if has_dup (map nf (map fst l)) then LError else LOk (LObject l)
  | None => LError
  end.

Fixpoint value_of_nf (nf : list Z -> list Z) (j : jvalue) : lresult :=
  match j with
  | JNull => LOk LNullDyn
  | JBool b => LOk (LBool b)
  | JNum m e => LOk (LNumber m e)
  | JStr s => LOk (LString s)
  | JArr vs => tuple_of (map (value_of_nf nf) vs)
  | JObj ms => object_of_nf nf (map (fun kv => (fst kv, value_of_nf nf (snd kv))) ms)
  | JInvalid => LOk LDynUnknown
  end.
