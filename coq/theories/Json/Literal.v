(* Json/Literal.v — the literal-only mapping of json/spec.md, section
   Expressions (= expression.Value with ctx == nil, json/structure.go):
     string  -> the exact sequence of characters, template sequences untouched
     number  -> the number at full decimal precision (exact: m * 10^e)
     bool    -> bool
     null    -> null of the dynamic pseudo-type
     array   -> tuple, indices preserved
     object  -> object; defining the same property name twice is an error
   Definitions only.  A small local value type; no dependency on other
   properties' files.  (cty additionally NFC-normalises strings; that is outside
   this mapping and is reported by the harness when it changes a string.) *)
From HclV Require Import Base.Prelude Json.Rfc8259.

Inductive lvalue :=
| LString (s : list Z)
| LNumber (m e : Z)                        (* m * 10^e *)
| LBool (b : bool)
| LNullDyn                                 (* cty.NullVal(cty.DynamicPseudoType) *)
| LTuple (vs : list lvalue)
| LObject (attrs : list (list Z * lvalue)) (* source order, names distinct *)
| LDynUnknown.                             (* cty.DynamicVal, for json.invalidVal *)

Inductive lresult :=
| LOk (v : lvalue)
| LError.                                  (* evaluation produced error diagnostics *)

Fixpoint mem_key (k : list Z) (ks : list (list Z)) : bool :=
  match ks with
  | [] => false
  | k' :: r => zlist_eqb k k' || mem_key k r
  end.

Fixpoint has_dup (ks : list (list Z)) : bool :=
  match ks with
  | [] => false
  | k :: r => mem_key k r || has_dup r
  end.

Fixpoint value_of (j : jvalue) : lresult :=
  match j with
  | JNull => LOk LNullDyn
  | JBool b => LOk (LBool b)
  | JNum m e => LOk (LNumber m e)
  | JStr s => LOk (LString s)
  | JArr vs =>
      match (fix elems (l : list jvalue) : option (list lvalue) :=
               match l with
               | [] => Some []
               | x :: r => match value_of x, elems r with
                           | LOk v, Some vs' => Some (v :: vs')
                           | _, _ => None
                           end
               end) vs with
      | Some l => LOk (LTuple l)
      | None => LError
      end
  | JObj ms =>
      match (fix attrs (l : list (list Z * jvalue)) : option (list (list Z * lvalue)) :=
               match l with
               | [] => Some []
               | (k, x) :: r => match value_of x, attrs r with
                                | LOk v, Some as' => Some ((k, v) :: as')
                                | _, _ => None
                                end
               end) ms with
      | Some l => if has_dup (map fst l) then LError else LOk (LObject l)
      | None => LError
      end
  | JInvalid => LOk LDynUnknown
  end.
