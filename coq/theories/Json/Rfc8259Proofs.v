(* Json/Rfc8259Proofs.v — the strict recogniser json_text_dec is sound and
   complete w.r.t. the relation JsonText (Json/Rfc8259.v). *)
From HclV Require Import Base.Prelude Json.Rfc8259.

Arguments is_ws : simpl never.
Arguments is_digit : simpl never.
Arguments is_hexdig : simpl never.
Arguments is_cont : simpl never.
Arguments in_range : simpl never.
Arguments is_esc_letter : simpl never.
Arguments three_ok : simpl never.
Arguments four_ok : simpl never.
Arguments Z.mul : simpl never.
Arguments Z.add : simpl never.
Arguments Z.sub : simpl never.
Arguments Z.opp : simpl never.
Arguments Z.eqb : simpl never.
Arguments Z.ltb : simpl never.
Arguments Z.leb : simpl never.

(* ---- small facts ------------------------------------------------------------- *)

Lemma bool_false_iff (b : bool) (P : Prop) : (b = true <-> P) -> (b = false <-> ~ P).
Proof.
  intros [H1 H2]. destruct b; split; intro H.
  - discriminate.
  - exfalso. apply H. apply H1. reflexivity.
  - intro HP. apply H2 in HP. discriminate.
  - reflexivity.
Qed.

Lemma is_ws_true b : is_ws b = true <-> ws_byte b.
Proof.
  unfold is_ws, ws_byte. rewrite !orb_true_iff, !Z.eqb_eq. tauto.
Qed.

Lemma is_ws_false b : is_ws b = false <-> ~ ws_byte b.
Proof. apply bool_false_iff. apply is_ws_true. Qed.

Lemma is_digit_true b : is_digit b = true <-> digit b.
Proof. unfold is_digit, digit. rewrite andb_true_iff, !Z.leb_le. tauto. Qed.

Lemma is_digit_false b : is_digit b = false <-> ~ digit b.
Proof. apply bool_false_iff. apply is_digit_true. Qed.

Lemma WS_app a b : WS a -> WS b -> WS (a ++ b).
Proof. unfold WS. intros. apply Forall_app. split; assumption. Qed.

Lemma WS_nil : WS [].
Proof. constructor. Qed.

(* the head of a byte string is not whitespace (or the string is empty) *)
Definition nows_head (bs : list Z) : Prop :=
  match bs with [] => True | b :: _ => is_ws b = false end.

Lemma skip_ws_app w rest : WS w -> skip_ws (w ++ rest) = skip_ws rest.
Proof.
  induction 1 as [|b w Hb Hw IH]; simpl; [reflexivity|].
  apply is_ws_true in Hb. rewrite Hb. exact IH.
Qed.

Lemma skip_ws_nows bs : nows_head bs -> skip_ws bs = bs.
Proof. destruct bs as [|b r]; simpl; intro H; [reflexivity|]. rewrite H. reflexivity. Qed.

Lemma skip_ws_split bs : exists w, WS w /\ bs = w ++ skip_ws bs.
Proof.
  induction bs as [|b r IH]; simpl.
  - exists []. split; [constructor|reflexivity].
  - destruct (is_ws b) eqn:E.
    + destruct IH as [w [Hw Hr]]. exists (b :: w). split.
      * constructor; [apply is_ws_true; exact E|exact Hw].
      * simpl. f_equal. exact Hr.
    + exists []. split; [constructor|reflexivity].
Qed.

Lemma skip_ws_nows_head bs : nows_head (skip_ws bs).
Proof.
  induction bs as [|b r IH]; simpl; [exact I|].
  destruct (is_ws b) eqn:E; [exact IH|]. simpl. exact E.
Qed.

(* ---- digits ------------------------------------------------------------------ *)

Definition nodigit_head (bs : list Z) : Prop :=
  match bs with [] => True | b :: _ => is_digit b = false end.

Lemma take_digits_spec bs :
  forall ds r, take_digits bs = (ds, r) -> bs = ds ++ r /\ Forall digit ds /\ nodigit_head r.
Proof.
  induction bs as [|b t IH]; simpl; intros ds r H.
  - inversion H; subst. repeat split; constructor.
  - destruct (is_digit b) eqn:E.
    + destruct (take_digits t) as [ds' r'] eqn:Et. inversion H; subst.
      destruct (IH ds' r eq_refl) as [H1 [H2 H3]]. repeat split.
      * simpl. f_equal. exact H1.
      * constructor; [apply is_digit_true; exact E|exact H2].
      * exact H3.
    + inversion H; subst. repeat split; [constructor|simpl; exact E].
Qed.

Lemma take_digits_app ds rest :
  Forall digit ds -> nodigit_head rest -> take_digits (ds ++ rest) = (ds, rest).
Proof.
  induction 1 as [|d ds Hd Hds IH]; simpl; intro Hr.
  - destruct rest as [|b r]; [reflexivity|]. simpl in *. rewrite Hr. reflexivity.
  - apply is_digit_true in Hd. rewrite Hd. rewrite (IH Hr). reflexivity.
Qed.

(* ---- numbers ------------------------------------------------------------------- *)

(* what may follow a number for the greedy recogniser to stop where the grammar does *)
Definition num_follow (bs : list Z) : Prop :=
  match bs with [] => True | b :: _ => is_digit b = false /\ b <> 46 /\ b <> 101 /\ b <> 69 end.

Lemma num_follow_nodigit bs : num_follow bs -> nodigit_head bs.
Proof. destruct bs; simpl; tauto. Qed.

Lemma take_int_sound bs ip r :
  take_int bs = Some (ip, r) -> bs = ip ++ r /\ IntPart ip /\ nodigit_head r.
Proof.
  unfold take_int. destruct (take_digits bs) as [ds r'] eqn:E.
  destruct (take_digits_spec _ _ _ E) as [H1 [H2 H3]].
  destruct ds as [|d ds]; [discriminate|].
  destruct ((d =? 48) && negb (is_nil ds)) eqn:Ez; [discriminate|].
  intro H; inversion H; subst. repeat split; try assumption.
  inversion H2 as [|? ? Hd Hds]; subst.
  apply andb_false_iff in Ez. destruct Ez as [Ez|Ez].
  - apply Z.eqb_neq in Ez. apply Int_nz; [unfold digit in Hd; lia|exact Hds].
  - destruct ds; [|discriminate]. destruct (Z.eq_dec d 48) as [->|Hn].
    + constructor.
    + apply Int_nz; [unfold digit in Hd; lia|constructor].
Qed.

Lemma IntPart_digits ip : IntPart ip -> Forall digit ip.
Proof.
  intros [|d ds Hd Hds].
  - repeat constructor; unfold digit; lia.
  - constructor; [unfold digit; lia|exact Hds].
Qed.

Lemma take_int_complete ip rest :
  IntPart ip -> nodigit_head rest -> take_int (ip ++ rest) = Some (ip, rest).
Proof.
  intros Hip Hr. unfold take_int. rewrite (take_digits_app _ _ (IntPart_digits _ Hip) Hr).
  destruct Hip as [|d ds Hd Hds].
  - reflexivity.
  - replace (d =? 48) with false by (symmetry; apply Z.eqb_neq; lia). reflexivity.
Qed.

Lemma take_frac_sound bs fds r :
  take_frac bs = Some (fds, r) -> exists fp, bs = fp ++ r /\ FracPart fp fds.
Proof.
  unfold take_frac. destruct bs as [|b t].
  - intro H; inversion H; subst. exists []. split; [reflexivity|constructor].
  - destruct (b =? 46) eqn:Eb.
    + apply Z.eqb_eq in Eb. subst b.
      destruct (take_digits t) as [f r'] eqn:E.
      destruct (take_digits_spec _ _ _ E) as [H1 [H2 H3]].
      destruct f as [|d ds]; [discriminate|]. simpl.
      intro H; inversion H; subst. exists (46 :: d :: ds). split; [reflexivity|].
      constructor. exact H2.
    + intro H; inversion H; subst. exists []. split; [reflexivity|constructor].
Qed.

Lemma take_frac_complete fp fds rest :
  FracPart fp fds -> nodigit_head rest ->
  (fp = [] -> match rest with [] => True | b :: _ => b <> 46 end) ->
  take_frac (fp ++ rest) = Some (fds, rest).
Proof.
  intros Hf Hr Hd. destruct Hf as [|d ds Hds].
  - simpl. specialize (Hd eq_refl). unfold take_frac. destruct rest as [|b t]; [reflexivity|].
    apply Z.eqb_neq in Hd. rewrite Hd. reflexivity.
  - change ((46 :: d :: ds) ++ rest) with (46 :: ((d :: ds) ++ rest)). unfold take_frac.
    replace (46 =? 46) with true by reflexivity.
    rewrite (take_digits_app _ _ Hds Hr). reflexivity.
Qed.

Lemma exp_digits_sound neg bs x r :
  exp_digits neg bs = Some (x, r) ->
  exists d ds, bs = (d :: ds) ++ r /\ Forall digit (d :: ds) /\
               x = (if neg then - dec_val (d :: ds) else dec_val (d :: ds)).
Proof.
  unfold exp_digits. destruct (take_digits bs) as [e r'] eqn:E.
  destruct (take_digits_spec _ _ _ E) as [H1 [H2 H3]].
  destruct e as [|d ds]; [discriminate|]. simpl.
  intro H; inversion H; subst. exists d, ds. repeat split; assumption.
Qed.

Lemma exp_digits_complete neg d ds rest :
  Forall digit (d :: ds) -> nodigit_head rest ->
  exp_digits neg ((d :: ds) ++ rest) = Some ((if neg then - dec_val (d :: ds) else dec_val (d :: ds)), rest).
Proof.
  intros Hds Hr. unfold exp_digits. rewrite (take_digits_app _ _ Hds Hr). reflexivity.
Qed.

Lemma take_exp_sound bs x r :
  take_exp bs = Some (x, r) -> exists ep, bs = ep ++ r /\ ExpPart ep x.
Proof.
  unfold take_exp. destruct bs as [|c t].
  - intro H; inversion H; subst. exists []. split; [reflexivity|constructor].
  - destruct ((c =? 101) || (c =? 69)) eqn:Ec.
    + assert (Hc : c = 101 \/ c = 69).
      { apply orb_true_iff in Ec. rewrite !Z.eqb_eq in Ec. exact Ec. }
      destruct t as [|s t']; [discriminate|].
      destruct (s =? 43) eqn:E43; [|destruct (s =? 45) eqn:E45].
      * apply Z.eqb_eq in E43. subst s. intro H.
        destruct (exp_digits_sound _ _ _ _ H) as [d [ds [H1 [H2 H3]]]]. subst.
        exists (c :: 43 :: d :: ds). split; [reflexivity|]. apply Exp_plus; assumption.
      * apply Z.eqb_eq in E45. subst s. intro H.
        destruct (exp_digits_sound _ _ _ _ H) as [d [ds [H1 [H2 H3]]]]. subst.
        exists (c :: 45 :: d :: ds). split; [reflexivity|]. apply Exp_minus; assumption.
      * intro H.
        destruct (exp_digits_sound _ _ _ _ H) as [d [ds [H1 [H2 H3]]]]. subst x.
        exists (c :: d :: ds). split; [simpl; f_equal; exact H1|]. apply Exp_plain; assumption.
    + intro H; inversion H; subst. exists []. split; [reflexivity|constructor].
Qed.

Lemma digit_not_sign d : digit d -> (d =? 43) = false /\ (d =? 45) = false.
Proof. unfold digit. intro H. split; apply Z.eqb_neq; lia. Qed.

Lemma take_exp_complete ep x rest :
  ExpPart ep x -> nodigit_head rest ->
  (ep = [] -> match rest with [] => True | b :: _ => b <> 101 /\ b <> 69 end) ->
  take_exp (ep ++ rest) = Some (x, rest).
Proof.
  intros He Hr Hn. destruct He as [|c d ds Hc Hds|c d ds Hc Hds|c d ds Hc Hds].
  - simpl. specialize (Hn eq_refl). unfold take_exp. destruct rest as [|b t]; [reflexivity|].
    destruct Hn as [H1 H2]. apply Z.eqb_neq in H1, H2. rewrite H1, H2. reflexivity.
  - change ((c :: d :: ds) ++ rest) with (c :: d :: (ds ++ rest)). unfold take_exp.
    replace ((c =? 101) || (c =? 69)) with true
      by (symmetry; apply orb_true_iff; rewrite !Z.eqb_eq; exact Hc).
    inversion Hds as [|? ? Hd _]; subst.
    destruct (digit_not_sign _ Hd) as [E1 E2]. rewrite E1, E2.
    change (d :: ds ++ rest) with ((d :: ds) ++ rest).
    rewrite (exp_digits_complete false _ _ _ Hds Hr). reflexivity.
  - change ((c :: 43 :: d :: ds) ++ rest) with (c :: 43 :: ((d :: ds) ++ rest)). unfold take_exp.
    replace ((c =? 101) || (c =? 69)) with true
      by (symmetry; apply orb_true_iff; rewrite !Z.eqb_eq; exact Hc).
    replace (43 =? 43) with true by reflexivity.
    rewrite (exp_digits_complete false _ _ _ Hds Hr). reflexivity.
  - change ((c :: 45 :: d :: ds) ++ rest) with (c :: 45 :: ((d :: ds) ++ rest)). unfold take_exp.
    replace ((c =? 101) || (c =? 69)) with true
      by (symmetry; apply orb_true_iff; rewrite !Z.eqb_eq; exact Hc).
    replace (45 =? 43) with false by reflexivity. replace (45 =? 45) with true by reflexivity.
    rewrite (exp_digits_complete true _ _ _ Hds Hr). reflexivity.
Qed.

Lemma take_unsigned_sound bs m e r :
  take_unsigned bs = Some (m, e, r) ->
  exists ip fp fds ep x, bs = (ip ++ fp ++ ep) ++ r /\ IntPart ip /\ FracPart fp fds /\ ExpPart ep x /\
    m = dec_val (ip ++ fds) /\ e = x - Z.of_nat (length fds).
Proof.
  unfold take_unsigned.
  destruct (take_int bs) as [[ip r1]|] eqn:E1; [|discriminate].
  destruct (take_frac r1) as [[fds r2]|] eqn:E2; [|discriminate].
  destruct (take_exp r2) as [[x r3]|] eqn:E3; [|discriminate].
  intro H; inversion H; subst.
  destruct (take_int_sound _ _ _ E1) as [H1 [H2 _]].
  destruct (take_frac_sound _ _ _ E2) as [fp [H3 H4]].
  destruct (take_exp_sound _ _ _ E3) as [ep [H5 H6]].
  exists ip, fp, fds, ep, x. subst. rewrite <- !app_assoc. repeat split; assumption.
Qed.

Lemma frac_exp_head fp fds ep x rest :
  FracPart fp fds -> ExpPart ep x -> num_follow rest -> nodigit_head (fp ++ ep ++ rest).
Proof.
  intros Hf He Hr. destruct Hf; simpl.
  - destruct He; simpl.
    + apply num_follow_nodigit. exact Hr.
    + apply is_digit_false. unfold digit. lia.
    + apply is_digit_false. unfold digit. lia.
    + apply is_digit_false. unfold digit. lia.
  - apply is_digit_false. unfold digit. lia.
Qed.

Lemma exp_head ep x rest :
  ExpPart ep x -> num_follow rest ->
  nodigit_head (ep ++ rest) /\ match ep ++ rest with [] => True | b :: _ => b <> 46 end.
Proof.
  intros He Hr. destruct He; simpl.
  - split; [apply num_follow_nodigit; exact Hr|]. destruct rest; simpl in *; tauto.
  - split; [apply is_digit_false; unfold digit; lia|lia].
  - split; [apply is_digit_false; unfold digit; lia|lia].
  - split; [apply is_digit_false; unfold digit; lia|lia].
Qed.

Lemma take_unsigned_complete ip fp fds ep x rest :
  IntPart ip -> FracPart fp fds -> ExpPart ep x -> num_follow rest ->
  take_unsigned ((ip ++ fp ++ ep) ++ rest) = Some (dec_val (ip ++ fds), x - Z.of_nat (length fds), rest).
Proof.
  intros Hi Hf He Hr. unfold take_unsigned. rewrite <- !app_assoc.
  rewrite (take_int_complete _ _ Hi (frac_exp_head _ _ _ _ _ Hf He Hr)).
  destruct (exp_head _ _ _ He Hr) as [G1 G2].
  rewrite (take_frac_complete _ _ _ Hf G1 (fun _ => G2)).
  rewrite (take_exp_complete _ _ _ He (num_follow_nodigit _ Hr)).
  - reflexivity.
  - intros _. destruct rest; simpl in *; tauto.
Qed.

Lemma take_number_sound bs m e r :
  take_number bs = Some (m, e, r) -> exists pre, bs = pre ++ r /\ Number pre m e.
Proof.
  unfold take_number. destruct bs as [|b t]; [discriminate|].
  destruct (b =? 45) eqn:Eb.
  - apply Z.eqb_eq in Eb. subst b.
    destruct (take_unsigned t) as [[[m' e'] r']|] eqn:E; [|discriminate].
    intro H; inversion H; subst.
    destruct (take_unsigned_sound _ _ _ _ E) as [ip [fp [fds [ep [x [H1 [H2 [H3 [H4 [H5 H6]]]]]]]]]].
    subst. exists (45 :: ip ++ fp ++ ep). split; [reflexivity|]. apply Num_neg; assumption.
  - intro E.
    destruct (take_unsigned_sound _ _ _ _ E) as [ip [fp [fds [ep [x [H1 [H2 [H3 [H4 [H5 H6]]]]]]]]]].
    subst. exists (ip ++ fp ++ ep). split; [exact H1|]. apply Num_pos; assumption.
Qed.

Lemma IntPart_head ip : IntPart ip -> exists d ds, ip = d :: ds /\ digit d.
Proof.
  intros [|d ds Hd Hds].
  - exists 48, []. split; [reflexivity|unfold digit; lia].
  - exists d, ds. split; [reflexivity|unfold digit; lia].
Qed.

Lemma take_number_complete pre m e rest :
  Number pre m e -> num_follow rest -> take_number (pre ++ rest) = Some (m, e, rest).
Proof.
  intros Hn Hr. destruct Hn as [ip fp fds ep x Hi Hf He|ip fp fds ep x Hi Hf He].
  - unfold take_number. destruct (IntPart_head _ Hi) as [d [ds [-> Hd]]]. simpl.
    replace (d =? 45) with false by (symmetry; apply Z.eqb_neq; unfold digit in Hd; lia).
    change (d :: (ds ++ fp ++ ep) ++ rest) with (((d :: ds) ++ fp ++ ep) ++ rest).
    change (d :: ds ++ fds) with ((d :: ds) ++ fds).
    apply take_unsigned_complete; assumption.
  - unfold take_number. simpl. replace (45 =? 45) with true by reflexivity.
    rewrite (take_unsigned_complete _ _ _ _ _ _ Hi Hf He Hr). reflexivity.
Qed.

(* ---- strings ------------------------------------------------------------------- *)

(* turn boolean tests in hypotheses into arithmetic facts *)
Ltac bprop :=
  repeat match goal with
  | H : _ && _ = true |- _ => apply andb_true_iff in H; destruct H
  | H : _ || _ = true |- _ => apply orb_true_iff in H; destruct H
  | H : (_ <=? _) = true |- _ => apply Z.leb_le in H
  | H : (_ <? _) = true |- _ => apply Z.ltb_lt in H
  | H : (_ =? _) = true |- _ => apply Z.eqb_eq in H
  | H : (_ <=? _) = false |- _ => apply Z.leb_gt in H
  | H : (_ <? _) = false |- _ => apply Z.ltb_ge in H
  | H : (_ =? _) = false |- _ => apply Z.eqb_neq in H
  end.

(* decide a closed boolean combination of comparisons from the arithmetic context *)
Ltac bdec :=
  repeat match goal with
  | |- context [?a <=? ?b] => destruct (Z.leb_spec a b); try (exfalso; lia)
  | |- context [?a <? ?b] => destruct (Z.ltb_spec a b); try (exfalso; lia)
  | |- context [?a =? ?b] => destruct (Z.eqb_spec a b); try (exfalso; lia)
  end; simpl; try reflexivity.

Lemma in_range_true lo hi b : in_range lo hi b = true <-> lo <= b <= hi.
Proof. unfold in_range. rewrite andb_true_iff, !Z.leb_le. tauto. Qed.

Lemma is_cont_true b : is_cont b = true <-> cont b.
Proof. unfold is_cont, cont. rewrite andb_true_iff, !Z.leb_le. tauto. Qed.

Lemma is_hexdig_true h : is_hexdig h = true <-> hexdig h.
Proof.
  unfold is_hexdig, hexdig. rewrite !orb_true_iff, !andb_true_iff, !Z.leb_le. tauto.
Qed.

Lemma is_esc_letter_true c : is_esc_letter c = true <-> esc_letter c.
Proof. unfold is_esc_letter, esc_letter. rewrite !orb_true_iff, !Z.eqb_eq. tauto. Qed.

Lemma two_ok_spec b1 b2 : in_range 194 223 b1 && is_cont b2 = true <-> Utf8Multi [b1; b2].
Proof.
  rewrite andb_true_iff, in_range_true, is_cont_true. split.
  - intros [H1 H2]. apply U2; assumption.
  - intro H. inversion H; subst. split; assumption.
Qed.

Lemma three_ok_spec b1 b2 b3 : three_ok b1 b2 b3 = true <-> Utf8Multi [b1; b2; b3].
Proof.
  unfold three_ok. rewrite !orb_true_iff, !andb_true_iff, !in_range_true, !is_cont_true, !Z.eqb_eq. split.
  - intros [[[[[H1 H2] H3]|[[H1 H2] H3]]|[[H1 H2] H3]]|[[H1 H2] H3]]; subst.
    + apply U3_E0; assumption.
    + apply U3_E1; assumption.
    + apply U3_ED; assumption.
    + apply U3_EE; assumption.
  - intro H. inversion H; subst; tauto.
Qed.

Lemma four_ok_spec b1 b2 b3 b4 : four_ok b1 b2 b3 b4 = true <-> Utf8Multi [b1; b2; b3; b4].
Proof.
  unfold four_ok. rewrite !orb_true_iff, !andb_true_iff, !in_range_true, !is_cont_true, !Z.eqb_eq. split.
  - intros [[[[[H1 H2] H3] H4]|[[[H1 H2] H3] H4]]|[[[H1 H2] H3] H4]]; subst.
    + apply U4_F0; assumption.
    + apply U4_F1; assumption.
    + apply U4_F4; assumption.
  - intro H. inversion H; subst; tauto.
Qed.

Lemma cons_item_some i o items r :
  cons_item i o = Some (items, r) -> exists is', items = i :: is' /\ o = Some (is', r).
Proof.
  destruct o as [[is' r']|]; simpl; [|discriminate].
  intro H; inversion H; subst. exists is'. split; reflexivity.
Qed.

Lemma take_items_sound_n :
  forall n bs items r, (length bs <= n)%nat -> take_items bs = Some (items, r) ->
    bs = flat_map item_bytes items ++ 34 :: r /\ Forall item_ok items.
Proof.
  induction n as [|n IH]; intros bs items r Hn H.
  - destruct bs; [discriminate|simpl in Hn; lia].
  - destruct bs as [|b1 r1]; [discriminate|]. simpl in Hn. cbn [take_items] in H.
    destruct (b1 =? 34) eqn:E34.
    { apply Z.eqb_eq in E34. inversion H; subst. split; [reflexivity|constructor]. }
    destruct (b1 =? 92) eqn:E92.
    { apply Z.eqb_eq in E92. subst b1.
      destruct r1 as [|c r2]; [discriminate|].
      destruct (c =? 117) eqn:Eu.
      - apply Z.eqb_eq in Eu. subst c.
        destruct r2 as [|h1 [|h2 [|h3 [|h4 r6]]]]; try discriminate.
        destruct (is_hexdig h1 && is_hexdig h2 && is_hexdig h3 && is_hexdig h4) eqn:Eh; [|discriminate].
        apply cons_item_some in H. destruct H as [is' [-> H]].
        apply IH in H; [|simpl in *; lia]. destruct H as [H1 H2]. split.
        + simpl. rewrite H1. reflexivity.
        + constructor; [|exact H2]. simpl.
          apply andb_true_iff in Eh. destruct Eh as [Eh E4].
          apply andb_true_iff in Eh. destruct Eh as [Eh E3].
          apply andb_true_iff in Eh. destruct Eh as [E1 E2].
          rewrite is_hexdig_true in E1, E2, E3, E4. tauto.
      - destruct (is_esc_letter c) eqn:Ee; [|discriminate].
        apply cons_item_some in H. destruct H as [is' [-> H]].
        apply IH in H; [|simpl in *; lia]. destruct H as [H1 H2]. split.
        + simpl. rewrite H1. reflexivity.
        + constructor; [|exact H2]. simpl. apply is_esc_letter_true. exact Ee. }
    destruct (b1 <? 32) eqn:E32; [discriminate|].
    destruct (b1 <? 128) eqn:E128.
    { apply cons_item_some in H. destruct H as [is' [-> H]].
      apply IH in H; [|lia]. destruct H as [H1 H2]. split.
      - simpl. rewrite H1. reflexivity.
      - constructor; [|exact H2]. simpl. bprop. apply Un_ascii; lia. }
    destruct r1 as [|b2 r2]; [discriminate|].
    destruct (in_range 194 223 b1 && is_cont b2) eqn:E2.
    { apply cons_item_some in H. destruct H as [is' [-> H]].
      apply IH in H; [|simpl in *; lia]. destruct H as [H1 H2]. split.
      - simpl. rewrite H1. reflexivity.
      - constructor; [|exact H2]. simpl. apply Un_multi. apply two_ok_spec. exact E2. }
    destruct r2 as [|b3 r3]; [discriminate|].
    destruct (three_ok b1 b2 b3) eqn:E3.
    { apply cons_item_some in H. destruct H as [is' [-> H]].
      apply IH in H; [|simpl in *; lia]. destruct H as [H1 H2]. split.
      - simpl. rewrite H1. reflexivity.
      - constructor; [|exact H2]. simpl. apply Un_multi. apply three_ok_spec. exact E3. }
    destruct r3 as [|b4 r4]; [discriminate|].
    destruct (four_ok b1 b2 b3 b4) eqn:E4; [|discriminate].
    apply cons_item_some in H. destruct H as [is' [-> H]].
    apply IH in H; [|simpl in *; lia]. destruct H as [H1 H2]. split.
    + simpl. rewrite H1. reflexivity.
    + constructor; [|exact H2]. simpl. apply Un_multi. apply four_ok_spec. exact E4.
Qed.

Lemma take_items_sound bs items r :
  take_items bs = Some (items, r) ->
  bs = flat_map item_bytes items ++ 34 :: r /\ Forall item_ok items.
Proof. apply (take_items_sound_n (length bs)). lia. Qed.

Lemma Utf8Multi_head bs : Utf8Multi bs -> exists b r, bs = b :: r /\ 194 <= b <= 244.
Proof. intro H. inversion H; subst; eexists; eexists; (split; [reflexivity|lia]). Qed.

Lemma take_items_complete items rest :
  Forall item_ok items -> take_items (flat_map item_bytes items ++ 34 :: rest) = Some (items, rest).
Proof.
  induction 1 as [|i items Hi His IH].
  - simpl. replace (34 =? 34) with true by reflexivity. reflexivity.
  - cbn [flat_map]. rewrite <- app_assoc. destruct i as [bs|c|h1 h2 h3 h4]; simpl in Hi.
    + (* raw character *)
      destruct Hi as [b Hb H34 H92|bs Hm].
      * cbn [item_bytes app take_items].
        replace (b =? 34) with false by (symmetry; apply Z.eqb_neq; lia).
        replace (b =? 92) with false by (symmetry; apply Z.eqb_neq; lia).
        replace (b <? 32) with false by (symmetry; apply Z.ltb_ge; lia).
        replace (b <? 128) with true by (symmetry; apply Z.ltb_lt; lia).
        rewrite IH. reflexivity.
      * cbn [item_bytes].
        assert (Hhead : forall b r, bs = b :: r ->
                  (b =? 34) = false /\ (b =? 92) = false /\ (b <? 32) = false /\ (b <? 128) = false).
        { intros b r E. destruct (Utf8Multi_head _ Hm) as [b' [r' [E' Hr]]]. rewrite E in E'.
          inversion E'; subst. repeat split; bdec. }
        inversion Hm; subst;
          match goal with |- context [take_items ((?b :: ?t) ++ _)] =>
            destruct (Hhead b t eq_refl) as [G1 [G2 [G3 G4]]] end;
          cbn [app take_items]; rewrite G1, G2, G3, G4.
        -- (* 2 bytes *)
           replace (in_range 194 223 b1 && is_cont b2) with true
             by (symmetry; apply two_ok_spec; exact Hm).
           rewrite IH. reflexivity.
        -- replace (in_range 194 223 224 && is_cont b2) with false by reflexivity.
           replace (three_ok 224 b2 b3) with true by (symmetry; apply three_ok_spec; exact Hm).
           rewrite IH. reflexivity.
        -- replace (in_range 194 223 b1 && is_cont b2) with false
             by (symmetry; apply andb_false_iff; left; unfold in_range; bdec).
           replace (three_ok b1 b2 b3) with true by (symmetry; apply three_ok_spec; exact Hm).
           rewrite IH. reflexivity.
        -- replace (in_range 194 223 237 && is_cont b2) with false by reflexivity.
           replace (three_ok 237 b2 b3) with true by (symmetry; apply three_ok_spec; exact Hm).
           rewrite IH. reflexivity.
        -- replace (in_range 194 223 b1 && is_cont b2) with false
             by (symmetry; apply andb_false_iff; left; unfold in_range; bdec).
           replace (three_ok b1 b2 b3) with true by (symmetry; apply three_ok_spec; exact Hm).
           rewrite IH. reflexivity.
        -- replace (in_range 194 223 240 && is_cont b2) with false by reflexivity.
           replace (three_ok 240 b2 b3) with false
             by (symmetry; unfold three_ok, in_range; bdec).
           replace (four_ok 240 b2 b3 b4) with true by (symmetry; apply four_ok_spec; exact Hm).
           rewrite IH. reflexivity.
        -- replace (in_range 194 223 b1 && is_cont b2) with false
             by (symmetry; apply andb_false_iff; left; unfold in_range; bdec).
           replace (three_ok b1 b2 b3) with false
             by (symmetry; unfold three_ok, in_range; bdec).
           replace (four_ok b1 b2 b3 b4) with true by (symmetry; apply four_ok_spec; exact Hm).
           rewrite IH. reflexivity.
        -- replace (in_range 194 223 244 && is_cont b2) with false by reflexivity.
           replace (three_ok 244 b2 b3) with false
             by (symmetry; unfold three_ok, in_range; bdec).
           replace (four_ok 244 b2 b3 b4) with true by (symmetry; apply four_ok_spec; exact Hm).
           rewrite IH. reflexivity.
    + (* two-character escape *)
      cbn [item_bytes app take_items].
      replace (92 =? 34) with false by reflexivity. replace (92 =? 92) with true by reflexivity.
      replace (c =? 117) with false
        by (symmetry; apply Z.eqb_neq; unfold esc_letter in Hi; lia).
      replace (is_esc_letter c) with true by (symmetry; apply is_esc_letter_true; exact Hi).
      rewrite IH. reflexivity.
    + (* \uXXXX *)
      cbn [item_bytes app take_items].
      replace (92 =? 34) with false by reflexivity. replace (92 =? 92) with true by reflexivity.
      replace (117 =? 117) with true by reflexivity.
      destruct Hi as [H1 [H2 [H3 H4]]].
      apply is_hexdig_true in H1, H2, H3, H4. rewrite H1, H2, H3, H4. simpl.
      rewrite IH. reflexivity.
Qed.

Lemma take_string_sound bs s r :
  take_string bs = Some (s, r) -> exists pre, bs = pre ++ r /\ StringLit pre s.
Proof.
  unfold take_string. destruct bs as [|b t]; [discriminate|].
  destruct (b =? 34) eqn:Eb; [|discriminate]. apply Z.eqb_eq in Eb. subst b.
  destruct (take_items t) as [[items r']|] eqn:E; [|discriminate].
  intro H; inversion H; subst.
  destruct (take_items_sound _ _ _ E) as [H1 H2]. subst t.
  exists (34 :: flat_map item_bytes items ++ [34]). split.
  - simpl. rewrite <- app_assoc. reflexivity.
  - constructor. exact H2.
Qed.

Lemma take_string_complete pre s rest :
  StringLit pre s -> take_string (pre ++ rest) = Some (s, rest).
Proof.
  intros [items Hi]. unfold take_string. cbn [app].
  replace (34 =? 34) with true by reflexivity.
  rewrite <- app_assoc. cbn [app]. rewrite (take_items_complete _ _ Hi). reflexivity.
Qed.

(* ---- heads of values -------------------------------------------------------------- *)

(* first byte of a value *)
Definition vhead (b : Z) : Prop :=
  b = 110 \/ b = 116 \/ b = 102 \/ b = 34 \/ b = 91 \/ b = 123 \/ b = 45 \/ digit b.

Lemma vhead_nows b : vhead b -> is_ws b = false.
Proof.
  intro H. apply is_ws_false. unfold ws_byte, vhead, digit in *. lia.
Qed.

Lemma Number_head bs m e : Number bs m e -> exists b r, bs = b :: r /\ (b = 45 \/ digit b).
Proof.
  intros [ip fp fds ep x Hi _ _|ip fp fds ep x Hi _ _].
  - destruct (IntPart_head _ Hi) as [d [ds [-> Hd]]]. exists d, (ds ++ fp ++ ep). split; [reflexivity|tauto].
  - exists 45, (ip ++ fp ++ ep). split; [reflexivity|tauto].
Qed.

Lemma StringLit_head bs s : StringLit bs s -> exists r, bs = 34 :: r.
Proof. intros [items _]. eexists. reflexivity. Qed.

Lemma Value_head bs v : Value bs v -> exists b r, bs = b :: r /\ vhead b.
Proof.
  intros [| | |bs' m e Hn|bs' s Hs|w Hw|bs' vs He|w Hw|bs' ms Hm];
    try (eexists; eexists; split; [reflexivity|unfold vhead; tauto]).
  - destruct (Number_head _ _ _ Hn) as [b [r [-> Hb]]]. exists b, r. split; [reflexivity|unfold vhead; tauto].
  - destruct (StringLit_head _ _ Hs) as [r ->]. exists 34, r. split; [reflexivity|unfold vhead; tauto].
Qed.

Lemma Value_nows bs v rest : Value bs v -> nows_head (bs ++ rest).
Proof.
  intro H. destruct (Value_head _ _ H) as [b [r [-> Hb]]]. simpl. apply vhead_nows. exact Hb.
Qed.

Lemma StringLit_nows bs s rest : StringLit bs s -> nows_head (bs ++ rest).
Proof. intro H. destruct (StringLit_head _ _ H) as [r ->]. reflexivity. Qed.

Lemma skip_ws_value w bs v rest : WS w -> Value bs v -> skip_ws (w ++ bs ++ rest) = bs ++ rest.
Proof. intros Hw Hv. rewrite skip_ws_app by exact Hw. apply skip_ws_nows. eapply Value_nows. exact Hv. Qed.

Lemma skip_ws_string w bs s rest : WS w -> StringLit bs s -> skip_ws (w ++ bs ++ rest) = bs ++ rest.
Proof. intros Hw Hv. rewrite skip_ws_app by exact Hw. apply skip_ws_nows. eapply StringLit_nows. exact Hv. Qed.

Lemma skip_ws_byte w b rest : WS w -> is_ws b = false -> skip_ws (w ++ b :: rest) = b :: rest.
Proof. intros Hw Hb. rewrite skip_ws_app by exact Hw. simpl. rewrite Hb. reflexivity. Qed.

(* elements / members start, after whitespace, with the head of a value / a quote *)
Lemma Elements_start bs vs : Elements bs vs ->
  exists w b r, bs = w ++ b :: r /\ WS w /\ vhead b.
Proof.
  intros [w1 bs' w2 v Hw1 Hv Hw2|w1 bs' w2 v rest vs' Hw1 Hv Hw2 _];
    destruct (Value_head _ _ Hv) as [b [r [-> Hb]]].
  - exists w1, b, (r ++ w2). repeat split; assumption.
  - exists w1, b, (r ++ w2 ++ 44 :: rest). repeat split; assumption.
Qed.

Lemma Members_start bs ms : Members bs ms -> exists w r, bs = w ++ 34 :: r /\ WS w.
Proof.
  intros [w1 kb k w2 w3 bs' w4 v Hw1 Hk _ _ _ _|w1 kb k w2 w3 bs' w4 v rest ms' Hw1 Hk _ _ _ _ _];
    destruct (StringLit_head _ _ Hk) as [r ->].
  - exists w1. eexists. split; [reflexivity|assumption].
  - exists w1. eexists. split; [reflexivity|assumption].
Qed.

Lemma strip_prefix_app p rest : strip_prefix p (p ++ rest) = Some rest.
Proof. induction p as [|a p IH]; simpl; [reflexivity|]. rewrite Z.eqb_refl. exact IH. Qed.

Lemma strip_prefix_some p : forall bs r, strip_prefix p bs = Some r -> bs = p ++ r.
Proof.
  induction p as [|a p IH]; simpl; intros bs r H.
  - inversion H. reflexivity.
  - destruct bs as [|b t]; [discriminate|]. destruct (a =? b) eqn:E; [|discriminate].
    apply Z.eqb_eq in E. subst. f_equal. apply IH. exact H.
Qed.

(* what may follow a value *)
Definition follow_ok (bs : list Z) : Prop :=
  match bs with [] => True | b :: _ => ws_byte b \/ b = 44 \/ b = 93 \/ b = 125 end.

Lemma follow_num bs : follow_ok bs -> num_follow bs.
Proof.
  destruct bs as [|b r]; simpl; [tauto|]. intro H. split.
  - apply is_digit_false. unfold digit, ws_byte in *. lia.
  - unfold ws_byte in H. lia.
Qed.

Lemma follow_ws w rest : WS w -> follow_ok rest -> follow_ok (w ++ rest).
Proof. intros Hw Hr. destruct Hw as [|b w Hb Hw]; simpl; [exact Hr|left; exact Hb]. Qed.

(* ---- soundness of the recursive descent ------------------------------------------ *)

Ltac lassoc := repeat (first [rewrite <- app_assoc | progress cbn [app]]); try reflexivity.

Lemma dec_sound : forall f,
  (forall bs v r, dec_value f bs = Some (v, r) -> exists pre, bs = pre ++ r /\ Value pre v) /\
  (forall bs vs r, dec_elems f bs = Some (vs, r) -> exists pre, bs = pre ++ 93 :: r /\ Elements pre vs) /\
  (forall bs ms r, dec_members f bs = Some (ms, r) -> exists pre, bs = pre ++ 125 :: r /\ Members pre ms).
Proof.
  induction f as [|f [IHv [IHe IHm]]].
  - repeat split; intros; discriminate.
  - repeat split.
    + (* value *)
      intros bs v r H. cbn [dec_value] in H. destruct bs as [|b t]; [discriminate|].
      destruct (b =? 34) eqn:E34.
      { destruct (take_string (b :: t)) as [[s r']|] eqn:Es; [|discriminate].
        injection H as Hv_ Hr_; subst v r. destruct (take_string_sound _ _ _ Es) as [pre [H1 H2]].
        exists pre. split; [exact H1|]. apply V_str. exact H2. }
      destruct (b =? 91) eqn:E91.
      { apply Z.eqb_eq in E91. subst b.
        destruct (skip_ws_split t) as [w [Hw Ht]].
        destruct (skip_ws t) as [|c r'] eqn:Esk; [discriminate|].
        destruct (c =? 93) eqn:Ec.
        - apply Z.eqb_eq in Ec. subst c. injection H as Hv_ Hr_; subst v r.
          exists (91 :: w ++ [93]). split.
          + rewrite Ht. simpl. rewrite <- app_assoc. reflexivity.
          + apply V_arr0. exact Hw.
        - destruct (dec_elems f t) as [[vs r'']|] eqn:Ee; [|discriminate].
          injection H as Hv_ Hr_; subst v r. destruct (IHe _ _ _ Ee) as [pre [H1 H2]].
          exists (91 :: pre ++ [93]). split.
          + rewrite H1. simpl. rewrite <- app_assoc. reflexivity.
          + apply V_arr. exact H2. }
      destruct (b =? 123) eqn:E123.
      { apply Z.eqb_eq in E123. subst b.
        destruct (skip_ws_split t) as [w [Hw Ht]].
        destruct (skip_ws t) as [|c r'] eqn:Esk; [discriminate|].
        destruct (c =? 125) eqn:Ec.
        - apply Z.eqb_eq in Ec. subst c. injection H as Hv_ Hr_; subst v r.
          exists (123 :: w ++ [125]). split.
          + rewrite Ht. simpl. rewrite <- app_assoc. reflexivity.
          + apply V_obj0. exact Hw.
        - destruct (dec_members f t) as [[ms r'']|] eqn:Ee; [|discriminate].
          injection H as Hv_ Hr_; subst v r. destruct (IHm _ _ _ Ee) as [pre [H1 H2]].
          exists (123 :: pre ++ [125]). split.
          + rewrite H1. simpl. rewrite <- app_assoc. reflexivity.
          + apply V_obj. exact H2. }
      destruct (b =? 110) eqn:E110.
      { destruct (strip_prefix kw_null (b :: t)) as [r'|] eqn:Ep; [|discriminate].
        injection H as Hv_ Hr_; subst v r. apply strip_prefix_some in Ep.
        exists kw_null. split; [exact Ep|apply V_null]. }
      destruct (b =? 116) eqn:E116.
      { destruct (strip_prefix kw_true (b :: t)) as [r'|] eqn:Ep; [|discriminate].
        injection H as Hv_ Hr_; subst v r. apply strip_prefix_some in Ep.
        exists kw_true. split; [exact Ep|apply V_true]. }
      destruct (b =? 102) eqn:E102.
      { destruct (strip_prefix kw_false (b :: t)) as [r'|] eqn:Ep; [|discriminate].
        injection H as Hv_ Hr_; subst v r. apply strip_prefix_some in Ep.
        exists kw_false. split; [exact Ep|apply V_false]. }
      destruct (take_number (b :: t)) as [[[m e] r']|] eqn:En; [|discriminate].
      injection H as Hv_ Hr_; subst v r. destruct (take_number_sound _ _ _ _ En) as [pre [H1 H2]].
      exists pre. split; [exact H1|]. apply V_num. exact H2.
    + (* elements *)
      intros bs vs r H. cbn [dec_elems] in H.
      destruct (skip_ws_split bs) as [w1 [Hw1 Hbs]].
      destruct (dec_value f (skip_ws bs)) as [[v r0]|] eqn:Ev; [|discriminate].
      destruct (IHv _ _ _ Ev) as [pre [H1 H2]].
      destruct (skip_ws_split r0) as [w2 [Hw2 Hr0]].
      destruct (skip_ws r0) as [|c r'] eqn:Esk; [discriminate|].
      destruct (c =? 93) eqn:E93.
      * apply Z.eqb_eq in E93. subst c. injection H as Hv_ Hr_; subst vs r.
        exists (w1 ++ pre ++ w2). split.
        -- rewrite Hbs, H1, Hr0. lassoc.
        -- apply E_one; assumption.
      * destruct (c =? 44) eqn:E44; [|discriminate]. apply Z.eqb_eq in E44. subst c.
        destruct (dec_elems f r') as [[vs' r'']|] eqn:Ee; [|discriminate].
        injection H as Hv_ Hr_; subst vs r. destruct (IHe _ _ _ Ee) as [pre' [H3 H4]].
        exists (w1 ++ pre ++ w2 ++ 44 :: pre'). split.
        -- rewrite Hbs, H1, Hr0, H3. lassoc.
        -- apply E_cons; assumption.
    + (* members *)
      intros bs ms r H. cbn [dec_members] in H.
      destruct (skip_ws_split bs) as [w1 [Hw1 Hbs]].
      destruct (take_string (skip_ws bs)) as [[k r0]|] eqn:Ek; [|discriminate].
      destruct (take_string_sound _ _ _ Ek) as [kb [K1 K2]].
      destruct (skip_ws_split r0) as [w2 [Hw2 Hr0]].
      destruct (skip_ws r0) as [|c0 r1] eqn:Esk0; [discriminate|].
      destruct (c0 =? 58) eqn:E58; [|discriminate]. apply Z.eqb_eq in E58. subst c0.
      destruct (skip_ws_split r1) as [w3 [Hw3 Hr1]].
      destruct (dec_value f (skip_ws r1)) as [[v r2]|] eqn:Ev; [|discriminate].
      destruct (IHv _ _ _ Ev) as [pre [H1 H2]].
      destruct (skip_ws_split r2) as [w4 [Hw4 Hr2]].
      destruct (skip_ws r2) as [|c r'] eqn:Esk; [discriminate|].
      destruct (c =? 125) eqn:E125.
      * apply Z.eqb_eq in E125. subst c. injection H as Hv_ Hr_; subst ms r.
        exists (w1 ++ kb ++ w2 ++ 58 :: w3 ++ pre ++ w4). split.
        -- rewrite Hbs, K1, Hr0, Hr1, H1, Hr2. lassoc.
        -- apply M_one; assumption.
      * destruct (c =? 44) eqn:E44; [|discriminate]. apply Z.eqb_eq in E44. subst c.
        destruct (dec_members f r') as [[ms' r'']|] eqn:Em; [|discriminate].
        injection H as Hv_ Hr_; subst ms r. destruct (IHm _ _ _ Em) as [pre' [H3 H4]].
        exists (w1 ++ kb ++ w2 ++ 58 :: w3 ++ pre ++ w4 ++ 44 :: pre'). split.
        -- rewrite Hbs, K1, Hr0, Hr1, H1, Hr2, H3. lassoc.
        -- apply M_cons; assumption.
Qed.

Theorem json_text_dec_sound bs v : json_text_dec bs = Some v -> JsonText bs v.
Proof.
  unfold json_text_dec. intro H.
  destruct (skip_ws_split bs) as [w1 [Hw1 Hbs]].
  destruct (dec_value (2 * length bs + 2) (skip_ws bs)) as [[v' r]|] eqn:Ev; [|discriminate].
  destruct (proj1 (dec_sound _) _ _ _ Ev) as [pre [H1 H2]].
  destruct (skip_ws_split r) as [w2 [Hw2 Hr]].
  destruct (skip_ws r) eqn:Er; [|discriminate]. inversion H; subst v'.
  rewrite Hbs, H1, Hr. rewrite app_nil_r. apply Text; assumption.
Qed.

(* ---- completeness of the recursive descent ---------------------------------------- *)

Scheme Value_mut := Minimality for Value Sort Prop
  with Elements_mut := Minimality for Elements Sort Prop
  with Members_mut := Minimality for Members Sort Prop.
Combined Scheme json_mutind from Value_mut, Elements_mut, Members_mut.

Lemma vhead_tests b : vhead b ->
  (b =? 93) = false /\ (b =? 125) = false /\ (b =? 44) = false.
Proof. unfold vhead, digit. intro H. repeat split; apply Z.eqb_neq; lia. Qed.

Lemma numhead_tests b : b = 45 \/ digit b ->
  (b =? 34) = false /\ (b =? 91) = false /\ (b =? 123) = false /\
  (b =? 110) = false /\ (b =? 116) = false /\ (b =? 102) = false.
Proof. unfold digit. intro H. repeat split; apply Z.eqb_neq; lia. Qed.

Lemma dec_complete :
  (forall bs v, Value bs v -> forall rest f, follow_ok rest -> (f > 2 * length bs)%nat ->
     dec_value f (bs ++ rest) = Some (v, rest)) /\
  (forall bs vs, Elements bs vs -> forall rest f, (f > 2 * length bs + 1)%nat ->
     dec_elems f (bs ++ 93 :: rest) = Some (vs, rest)) /\
  (forall bs ms, Members bs ms -> forall rest f, (f > 2 * length bs + 1)%nat ->
     dec_members f (bs ++ 125 :: rest) = Some (ms, rest)).
Proof.
  apply json_mutind.
  - (* null *) intros rest f _ Hf. destruct f as [|f]; [simpl in Hf; lia|]. reflexivity.
  - intros rest f _ Hf. destruct f as [|f]; [simpl in Hf; lia|]. reflexivity.
  - intros rest f _ Hf. destruct f as [|f]; [simpl in Hf; lia|]. reflexivity.
  - (* number *)
    intros bs m e Hn rest f Hr Hf. destruct f as [|f]; [lia|].
    destruct (Number_head _ _ _ Hn) as [b [r [E Hb]]].
    destruct (numhead_tests _ Hb) as [T1 [T2 [T3 [T4 [T5 T6]]]]].
    pose proof (take_number_complete _ _ _ rest Hn (follow_num _ Hr)) as Hc.
    subst bs. cbn [dec_value app] in *. rewrite T1, T2, T3, T4, T5, T6. rewrite Hc. reflexivity.
  - (* string *)
    intros bs s Hs rest f Hr Hf. destruct f as [|f]; [lia|].
    pose proof (take_string_complete _ _ rest Hs) as Hc.
    destruct (StringLit_head _ _ Hs) as [r E]. subst bs. cbn [dec_value app] in *.
    replace (34 =? 34) with true by reflexivity. rewrite Hc. reflexivity.
  - (* empty array *)
    intros w Hw rest f Hr Hf. destruct f as [|f]; [lia|].
    cbn [dec_value app]. replace (91 =? 34) with false by reflexivity.
    replace (91 =? 91) with true by reflexivity.
    rewrite <- app_assoc. cbn [app]. rewrite (skip_ws_byte w 93 rest Hw eq_refl).
    replace (93 =? 93) with true by reflexivity. reflexivity.
  - (* array *)
    intros bs vs He IH rest f Hr Hf. destruct f as [|f]; [lia|].
    cbn [dec_value app]. replace (91 =? 34) with false by reflexivity.
    replace (91 =? 91) with true by reflexivity.
    rewrite <- app_assoc. cbn [app].
    destruct (Elements_start _ _ He) as [w [b [r [E [Hw Hb]]]]].
    destruct (vhead_tests _ Hb) as [T1 _].
    rewrite E at 1. rewrite <- app_assoc. cbn [app].
    rewrite (skip_ws_byte w b _ Hw (vhead_nows _ Hb)). rewrite T1.
    rewrite IH; [reflexivity|]. simpl in Hf. rewrite app_length in Hf. simpl in Hf. lia.
  - (* empty object *)
    intros w Hw rest f Hr Hf. destruct f as [|f]; [lia|].
    cbn [dec_value app]. replace (123 =? 34) with false by reflexivity.
    replace (123 =? 91) with false by reflexivity. replace (123 =? 123) with true by reflexivity.
    rewrite <- app_assoc. cbn [app]. rewrite (skip_ws_byte w 125 rest Hw eq_refl).
    replace (125 =? 125) with true by reflexivity. reflexivity.
  - (* object *)
    intros bs ms Hm IH rest f Hr Hf. destruct f as [|f]; [lia|].
    cbn [dec_value app]. replace (123 =? 34) with false by reflexivity.
    replace (123 =? 91) with false by reflexivity. replace (123 =? 123) with true by reflexivity.
    rewrite <- app_assoc. cbn [app].
    destruct (Members_start _ _ Hm) as [w [r [E Hw]]].
    rewrite E at 1. rewrite <- app_assoc. cbn [app].
    rewrite (skip_ws_byte w 34 _ Hw eq_refl). replace (34 =? 125) with false by reflexivity.
    rewrite IH; [reflexivity|]. simpl in Hf. rewrite app_length in Hf. simpl in Hf. lia.
  - (* one element *)
    intros w1 bs w2 v Hw1 Hv IH Hw2 rest f Hf. destruct f as [|f]; [lia|].
    rewrite !app_length in Hf. cbn [dec_elems]. rewrite <- !app_assoc.
    rewrite (skip_ws_value _ _ _ _ Hw1 Hv).
    rewrite IH; [| apply follow_ws; [exact Hw2|simpl; tauto] | lia].
    rewrite (skip_ws_byte w2 93 rest Hw2 eq_refl).
    replace (93 =? 93) with true by reflexivity. reflexivity.
  - (* more elements *)
    intros w1 bs w2 v erest vs Hw1 Hv IHv Hw2 He IHe rest f Hf. destruct f as [|f]; [lia|].
    rewrite !app_length in Hf. simpl in Hf. cbn [dec_elems]. rewrite <- !app_assoc.
    rewrite (skip_ws_value _ _ _ _ Hw1 Hv).
    rewrite IHv; [| apply follow_ws; [exact Hw2|simpl; tauto] | lia].
    cbn [app]. rewrite (skip_ws_byte w2 44 _ Hw2 eq_refl).
    replace (44 =? 93) with false by reflexivity. replace (44 =? 44) with true by reflexivity.
    rewrite IHe; [reflexivity|lia].
  - (* one member *)
    intros w1 kb k w2 w3 bs w4 v Hw1 Hk Hw2 Hw3 Hv IH Hw4 rest f Hf. destruct f as [|f]; [lia|].
    rewrite !app_length in Hf. simpl in Hf. rewrite !app_length in Hf.
    cbn [dec_members]. rewrite <- !app_assoc.
    rewrite (skip_ws_string _ _ _ _ Hw1 Hk). rewrite (take_string_complete _ _ _ Hk).
    cbn [app]. rewrite (skip_ws_byte w2 58 _ Hw2 eq_refl). replace (58 =? 58) with true by reflexivity.
    rewrite <- !app_assoc. rewrite (skip_ws_value _ _ _ _ Hw3 Hv).
    rewrite IH; [| apply follow_ws; [exact Hw4|simpl; tauto] | lia].
    rewrite (skip_ws_byte w4 125 rest Hw4 eq_refl).
    replace (125 =? 125) with true by reflexivity. reflexivity.
  - (* more members *)
    intros w1 kb k w2 w3 bs w4 v mrest ms Hw1 Hk Hw2 Hw3 Hv IHv Hw4 Hm IHm rest f Hf.
    destruct f as [|f]; [lia|].
    rewrite !app_length in Hf. simpl in Hf. rewrite !app_length in Hf. simpl in Hf.
    cbn [dec_members]. rewrite <- !app_assoc.
    rewrite (skip_ws_string _ _ _ _ Hw1 Hk). rewrite (take_string_complete _ _ _ Hk).
    cbn [app]. rewrite (skip_ws_byte w2 58 _ Hw2 eq_refl). replace (58 =? 58) with true by reflexivity.
    rewrite <- !app_assoc. rewrite (skip_ws_value _ _ _ _ Hw3 Hv).
    rewrite IHv; [| apply follow_ws; [exact Hw4|simpl; tauto] | lia].
    cbn [app]. rewrite (skip_ws_byte w4 44 _ Hw4 eq_refl).
    replace (44 =? 125) with false by reflexivity. replace (44 =? 44) with true by reflexivity.
    rewrite IHm; [reflexivity|lia].
Qed.

Theorem json_text_dec_complete bs v : JsonText bs v -> json_text_dec bs = Some v.
Proof.
  intros [w1 core w2 v' Hw1 Hv Hw2]. unfold json_text_dec.
  rewrite (skip_ws_value _ _ _ _ Hw1 Hv).
  rewrite (proj1 dec_complete _ _ Hv).
  - rewrite <- (app_nil_r w2). rewrite (skip_ws_app _ _ Hw2). reflexivity.
  - destruct Hw2 as [|b w Hb _]; simpl; tauto.
  - rewrite !app_length. lia.
Qed.

(* the recogniser decides the relation, and the relation is functional *)
Corollary json_text_dec_iff bs v : json_text_dec bs = Some v <-> JsonText bs v.
Proof. split; [apply json_text_dec_sound|apply json_text_dec_complete]. Qed.

Corollary JsonText_functional bs v1 v2 : JsonText bs v1 -> JsonText bs v2 -> v1 = v2.
Proof.
  intros H1 H2. apply json_text_dec_complete in H1, H2. rewrite H1 in H2. inversion H2. reflexivity.
Qed.
