(* Json/LiteralProofs.v — the literal-only mapping (Json/Literal.v) has the
   properties json/spec.md prescribes: strings verbatim with template sequences
   untouched, numbers exact, arrays to tuples of the same length and order,
   objects with duplicate names an error, null to the dynamic null. *)
From HclV Require Import Base.Prelude Json.Rfc8259 Json.Literal.

(* ---- strings, numbers, booleans, null: by construction ---------------------------- *)

Lemma literal_string_verbatim s : value_of (JStr s) = LOk (LString s).
Proof. reflexivity. Qed.

(* "${" = 36 123, "%{" = 37 123: no processing of template sequences *)
Lemma template_interp_untouched pre post :
  value_of (JStr (pre ++ [36; 123] ++ post)) = LOk (LString (pre ++ [36; 123] ++ post)).
Proof. reflexivity. Qed.

Lemma template_control_untouched pre post :
  value_of (JStr (pre ++ [37; 123] ++ post)) = LOk (LString (pre ++ [37; 123] ++ post)).
Proof. reflexivity. Qed.

Lemma literal_number_exact m e : value_of (JNum m e) = LOk (LNumber m e).
Proof. reflexivity. Qed.

Lemma literal_bool b : value_of (JBool b) = LOk (LBool b).
Proof. reflexivity. Qed.

Lemma literal_null : value_of JNull = LOk LNullDyn.
Proof. reflexivity. Qed.

(* ---- arrays ------------------------------------------------------------------------ *)

Lemma collect_some rs l : collect rs = Some l -> rs = map LOk l.
Proof.
  revert l. induction rs as [|r rs IH]; intros l H.
  - inversion H. reflexivity.
  - cbn [collect] in H. destruct r as [v|]; [|discriminate].
    destruct (collect rs) as [vs|] eqn:E; [|discriminate]. inversion H; subst.
    cbn [map]. f_equal. apply IH. reflexivity.
Qed.

Lemma collect_map_ok l : collect (map LOk l) = Some l.
Proof. induction l as [|v l IH]; [reflexivity|]. cbn [map collect]. rewrite IH. reflexivity. Qed.

(* arrays map to tuples: same length, element i is the mapping of element i *)
Theorem literal_array_tuple vs l : value_of (JArr vs) = LOk (LTuple l) ->
  length l = length vs /\ map value_of vs = map LOk l.
Proof.
  cbn [value_of]. unfold tuple_of. destruct (collect (map value_of vs)) as [l'|] eqn:E; [|discriminate].
  intro H; inversion H; subst l'. apply collect_some in E. split; [|exact E].
  assert (L := f_equal (@length lresult) E). rewrite !map_length in L. symmetry. exact L.
Qed.

Lemma literal_array_nth vs l i : value_of (JArr vs) = LOk (LTuple l) -> (i < length vs)%nat ->
  value_of (nth i vs JNull) = LOk (nth i l LNullDyn).
Proof.
  intros H Hi. destruct (literal_array_tuple _ _ H) as [Hl Hm].
  assert (E : nth i (map value_of vs) (value_of JNull) = nth i (map LOk l) (LOk LNullDyn))
    by (rewrite Hm; reflexivity).
  rewrite !map_nth in E. exact E.
Qed.

(* an array is an error exactly when one of its elements is *)
Lemma literal_array_error vs : value_of (JArr vs) = LError <-> exists v, In v vs /\ value_of v = LError.
Proof.
  cbn [value_of]. unfold tuple_of. split.
  - destruct (collect (map value_of vs)) as [l|] eqn:E; [discriminate|]. intros _.
    induction vs as [|x vs IH]; [discriminate|]. cbn [map collect] in E.
    destruct (value_of x) as [v|] eqn:Ex.
    + destruct (collect (map value_of vs)) as [l|] eqn:E'; [discriminate|].
      destruct (IH eq_refl) as [v' [Hin Hv']]. exists v'. split; [right; exact Hin|exact Hv'].
    + exists x. split; [left; reflexivity|exact Ex].
  - intros [v [Hin Hv]]. destruct (collect (map value_of vs)) as [l|] eqn:E; [|reflexivity].
    apply collect_some in E. exfalso.
    assert (Hin' : In (value_of v) (map value_of vs)) by (apply in_map; exact Hin).
    rewrite E, Hv in Hin'. apply in_map_iff in Hin'. destruct Hin' as [x [Hx _]]. discriminate.
Qed.

(* ---- objects ------------------------------------------------------------------------ *)

Lemma mem_key_In k ks : mem_key k ks = true <-> In k ks.
Proof.
  induction ks as [|k' r IH]; simpl; [split; [discriminate|tauto]|].
  rewrite orb_true_iff, IH, zlist_eqb_eq. split; intros [H|H]; auto.
Qed.

Lemma has_dup_NoDup ks : has_dup ks = false <-> NoDup ks.
Proof.
  induction ks as [|k r IH]; simpl.
  - split; [constructor|reflexivity].
  - rewrite orb_false_iff, IH. split.
    + intros [H1 H2]. constructor; [|exact H2]. rewrite <- mem_key_In. rewrite H1. discriminate.
    + intro H. inversion H; subst. split; [|assumption].
      destruct (mem_key k r) eqn:E; [|reflexivity]. apply mem_key_In in E. contradiction.
Qed.

Lemma collect_attrs_some rs l : collect_attrs rs = Some l ->
  rs = map (fun kv => (fst kv, LOk (snd kv))) l.
Proof.
  revert l. induction rs as [|[k r] rs IH]; intros l H.
  - inversion H. reflexivity.
  - cbn [collect_attrs] in H. destruct r as [v|]; [|discriminate].
    destruct (collect_attrs rs) as [vs|] eqn:E; [|discriminate]. inversion H; subst.
    cbn [map fst snd]. f_equal. apply IH. reflexivity.
Qed.

Lemma collect_attrs_names rs l : collect_attrs rs = Some l -> map fst l = map fst rs.
Proof.
  intro H. apply collect_attrs_some in H. subst rs. rewrite map_map. cbn [fst]. reflexivity.
Qed.

(* objects map to objects: the names in source order, all distinct, each value
   the mapping of the member's value *)
Theorem literal_object ms attrs : value_of (JObj ms) = LOk (LObject attrs) ->
  map fst attrs = map fst ms /\ NoDup (map fst ms) /\
  map (fun kv => value_of (snd kv)) ms = map (fun kv => LOk (snd kv)) attrs.
Proof.
  cbn [value_of]. unfold object_of.
  destruct (collect_attrs (map (fun kv => (fst kv, value_of (snd kv))) ms)) as [l|] eqn:E; [|discriminate].
  destruct (has_dup (map fst l)) eqn:Ed; [discriminate|]. intro H; inversion H; subst l.
  pose proof (collect_attrs_names _ _ E) as Hn. rewrite map_map in Hn. cbn [fst] in Hn.
  change (map (fun x : list Z * jvalue => fst x) ms) with (map fst ms) in Hn.
  split; [exact Hn|]. split; [rewrite <- Hn; apply has_dup_NoDup; exact Ed|].
  apply collect_attrs_some in E.
  assert (E' := f_equal (map snd) E). rewrite !map_map in E'. cbn [snd] in E'. exact E'.
Qed.

(* defining the same property name twice is an error *)
Theorem duplicate_names_error ms : has_dup (map fst ms) = true -> value_of (JObj ms) = LError.
Proof.
  intro Hd. cbn [value_of]. unfold object_of.
  destruct (collect_attrs (map (fun kv => (fst kv, value_of (snd kv))) ms)) as [l|] eqn:E; [|reflexivity].
  pose proof (collect_attrs_names _ _ E) as Hn. rewrite map_map in Hn. cbn [fst] in Hn.
  change (map (fun x : list Z * jvalue => fst x) ms) with (map fst ms) in Hn.
  rewrite Hn, Hd. reflexivity.
Qed.

Corollary duplicate_name_example k v1 v2 rest : value_of (JObj ((k, v1) :: (k, v2) :: rest)) = LError.
Proof.
  apply duplicate_names_error. cbn [map fst has_dup mem_key].
  replace (zlist_eqb k k) with true by (symmetry; apply zlist_eqb_eq; reflexivity). reflexivity.
Qed.

Lemma collect_attrs_ok (l : list (list Z * lvalue)) :
  collect_attrs (map (fun kv => (fst kv, LOk (snd kv))) l) = Some l.
Proof.
  induction l as [|[k v] l IH]; [reflexivity|]. cbn [map collect_attrs fst snd]. rewrite IH. reflexivity.
Qed.

(* with distinct names and error-free members the object evaluates *)
Theorem literal_object_ok ms attrs :
  NoDup (map fst ms) -> map fst attrs = map fst ms ->
  map (fun kv => value_of (snd kv)) ms = map (fun kv => LOk (snd kv)) attrs ->
  value_of (JObj ms) = LOk (LObject attrs).
Proof.
  intros Hnd Hn Hv. cbn [value_of]. unfold object_of.
  assert (E : map (fun kv => (fst kv, value_of (snd kv))) ms = map (fun kv => (fst kv, LOk (snd kv))) attrs).
  { revert attrs Hn Hv. clear Hnd. induction ms as [|[k x] ms IH]; intros [|[k' v'] attrs] Hn Hv; try discriminate.
    - reflexivity.
    - cbn [map fst snd] in *. inversion Hn; inversion Hv; subst. f_equal. apply IH; assumption. }
  rewrite E, collect_attrs_ok. rewrite Hn.
  replace (has_dup (map fst ms)) with false by (symmetry; apply has_dup_NoDup; exact Hnd). reflexivity.
Qed.

(* invalid nodes (only reachable after parse errors) evaluate to the dynamic unknown *)
Lemma literal_invalid : value_of JInvalid = LOk LDynUnknown.
Proof. reflexivity. Qed.

(* ================================================================================== *)
(* names compared as HCL strings: value_of_nf, for EVERY normalisation nf              *)
(* ================================================================================== *)

(* the plain mapping is the mapping at the identity normalisation *)
Lemma value_of_nf_id : forall j, value_of_nf (fun k => k) j = value_of j.
Proof.
  fix IH 1. intros [| b | m e | s | vs | ms |]; try reflexivity.
  - cbn [value_of_nf value_of]. f_equal.
    induction vs as [|v vs IHvs]; [reflexivity|]. cbn [map]. rewrite IH, IHvs. reflexivity.
  - cbn [value_of_nf value_of]. unfold object_of_nf, object_of.
    assert (E : map (fun kv => (fst kv, value_of_nf (fun k => k) (snd kv))) ms
                = map (fun kv => (fst kv, value_of (snd kv))) ms).
    { induction ms as [|[k v] ms IHms]; [reflexivity|]. cbn [map fst snd]. rewrite IH, IHms. reflexivity. }
    rewrite E. destruct (collect_attrs _) as [l|]; [|reflexivity]. rewrite map_id. reflexivity.
Qed.

Lemma mem_key_map nf k ks : mem_key k ks = true -> mem_key (nf k) (map nf ks) = true.
Proof.
  rewrite !mem_key_In. intro H. apply in_map. exact H.
Qed.

(* byte-identical duplicates are duplicates under every normalisation *)
Lemma has_dup_map nf ks : has_dup ks = true -> has_dup (map nf ks) = true.
Proof.
  induction ks as [|k r IH]; [discriminate|]. cbn [has_dup map].
  rewrite !orb_true_iff. intros [H|H]; [left; apply mem_key_map; exact H|right; apply IH; exact H].
Qed.

(* two names with the same normal form: a duplicate *)
Lemma has_dup_nf_pair nf (pre mid post : list (list Z)) k1 k2 :
  nf k1 = nf k2 -> has_dup (map nf (pre ++ k1 :: mid ++ k2 :: post)) = true.
Proof.
  intro E. induction pre as [|p pre IH].
  - cbn [app map has_dup]. apply orb_true_iff. left. apply mem_key_In.
    rewrite map_app. apply in_or_app. right. cbn [map]. left. symmetry. exact E.
  - cbn [app map has_dup]. apply orb_true_iff. right. exact IH.
Qed.

(* defining the same HCL string twice as a property name is an error *)
Theorem duplicate_names_error_nf nf ms :
  has_dup (map nf (map fst ms)) = true -> value_of_nf nf (JObj ms) = LError.
Proof.
  intro Hd. cbn [value_of_nf]. unfold object_of_nf.
  destruct (collect_attrs (map (fun kv => (fst kv, value_of_nf nf (snd kv))) ms)) as [l|] eqn:E; [|reflexivity].
  pose proof (collect_attrs_names _ _ E) as Hn. rewrite map_map in Hn. cbn [fst] in Hn.
  change (map (fun x : list Z * jvalue => fst x) ms) with (map fst ms) in Hn.
  rewrite Hn, Hd. reflexivity.
Qed.

(* in particular: two members, anywhere in the object, whose names have the same normal form *)
Corollary equivalent_names_error nf pre mid post k1 v1 k2 v2 :
  nf k1 = nf k2 -> value_of_nf nf (JObj (pre ++ (k1, v1) :: mid ++ (k2, v2) :: post)) = LError.
Proof.
  intro E. apply duplicate_names_error_nf.
  replace (map fst (pre ++ (k1, v1) :: mid ++ (k2, v2) :: post))
    with (map fst pre ++ k1 :: map fst mid ++ k2 :: map fst post)
    by (rewrite map_app; cbn [map fst]; rewrite map_app; reflexivity).
  apply has_dup_nf_pair. exact E.
Qed.

(* an object that evaluates has one attribute per member, names in source order, and the
   names are pairwise different HCL strings: no member is silently dropped or merged *)
Theorem literal_object_nf nf ms attrs : value_of_nf nf (JObj ms) = LOk (LObject attrs) ->
  map fst attrs = map fst ms /\ NoDup (map nf (map fst ms)) /\ length attrs = length ms /\
  map (fun kv => value_of_nf nf (snd kv)) ms = map (fun kv => LOk (snd kv)) attrs.
Proof.
  cbn [value_of_nf]. unfold object_of_nf.
  destruct (collect_attrs (map (fun kv => (fst kv, value_of_nf nf (snd kv))) ms)) as [l|] eqn:E; [|discriminate].
  destruct (has_dup (map nf (map fst l))) eqn:Ed; [discriminate|]. intro H; inversion H; subst l.
  pose proof (collect_attrs_names _ _ E) as Hn. rewrite map_map in Hn. cbn [fst] in Hn.
  change (map (fun x : list Z * jvalue => fst x) ms) with (map fst ms) in Hn.
  split; [exact Hn|]. split; [rewrite <- Hn; apply has_dup_NoDup; exact Ed|].
  split; [rewrite <- (map_length fst attrs), Hn; apply map_length|].
  apply collect_attrs_some in E.
  assert (E' := f_equal (map snd) E). rewrite !map_map in E'. cbn [snd] in E'. exact E'.
Qed.

Lemma collect_none_mono (f g : jvalue -> lresult) vs :
  (forall v, In v vs -> f v = LError -> g v = LError) ->
  collect (map f vs) = None -> collect (map g vs) = None.
Proof.
  induction vs as [|v vs IH]; intros Hm; [discriminate|]. cbn [map collect].
  destruct (f v) eqn:Ef.
  - destruct (collect (map f vs)) eqn:Ec; [discriminate|]. intros _.
    rewrite IH; [destruct (g v); reflexivity| |reflexivity].
    intros x Hx. apply Hm. right. exact Hx.
  - intros _. rewrite (Hm v (or_introl eq_refl) Ef). reflexivity.
Qed.

(* value_of_nf reports at least the errors of value_of: comparing names as HCL strings only
   ADDS duplicate errors, whatever nf is *)
Theorem value_of_nf_error_mono nf : forall j, value_of j = LError -> value_of_nf nf j = LError.
Proof.
  fix IH 1. intros [| b | m e | s | vs | ms |]; try discriminate.
  - cbn [value_of value_of_nf]. unfold tuple_of.
    destruct (collect (map value_of vs)) eqn:Ec; [discriminate|]. intros _.
    rewrite (collect_none_mono value_of (value_of_nf nf) vs); [reflexivity| |exact Ec].
    clear Ec. induction vs as [|v vs IHvs]; intros x [].
    + subst x. apply IH.
    + apply IHvs. assumption.
  - cbn [value_of value_of_nf]. unfold object_of, object_of_nf.
    destruct (collect_attrs (map (fun kv => (fst kv, value_of_nf nf (snd kv))) ms)) as [l'|] eqn:E'; [|reflexivity].
    pose proof (collect_attrs_names _ _ E') as Hn'. rewrite map_map in Hn'. cbn [fst] in Hn'.
    change (map (fun x : list Z * jvalue => fst x) ms) with (map fst ms) in Hn'.
    destruct (collect_attrs (map (fun kv => (fst kv, value_of (snd kv))) ms)) as [l|] eqn:E.
    + pose proof (collect_attrs_names _ _ E) as Hn. rewrite map_map in Hn. cbn [fst] in Hn.
      change (map (fun x : list Z * jvalue => fst x) ms) with (map fst ms) in Hn.
      destruct (has_dup (map fst l)) eqn:Ed; [|discriminate]. intros _.
      rewrite Hn', <- Hn. rewrite (has_dup_map nf _ Ed). reflexivity.
    + intros _. exfalso. clear Hn'. revert l' E' E.
      induction ms as [|[k v] ms IHms]; intros l' E' E; [discriminate|].
      cbn [map collect_attrs fst snd] in E, E'.
      destruct (value_of_nf nf v) eqn:Ev'; [|discriminate].
      destruct (collect_attrs (map (fun kv => (fst kv, value_of_nf nf (snd kv))) ms)) as [l2|] eqn:E2; [|discriminate].
      destruct (value_of v) eqn:Ev.
      * destruct (collect_attrs (map (fun kv => (fst kv, value_of (snd kv))) ms)) eqn:E3; [discriminate|].
        eapply IHms; reflexivity.
      * rewrite (IH v Ev) in Ev'. discriminate.
Qed.
