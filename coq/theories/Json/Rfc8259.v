(* Json/Rfc8259.v — the REFERENCE for property C13: RFC 8259 (JSON) as an
   inductive relation over byte strings, and an executable strict recogniser
   [json_text_dec] (proved sound and complete w.r.t. the relation in
   Json/Rfc8259Proofs.v).  Definitions only.  This file is standalone: it does
   not look at the Go code and shares nothing with Json/Parser.v except the
   value type [jvalue] and the code-point encoder [utf8_encode].

   Conventions.  A JSON text is a byte string that is the UTF-8 encoding of
       ws value ws                                       (RFC 8259 §2)
   Strings carry their value as the UTF-8 bytes of the denoted code points
   (escapes resolved, surrogate pairs combined).  RFC 8259 §8.2 leaves the
   meaning of an unpaired \uD800..\uDFFF escape open; the reference maps it to
   U+FFFD (Unicode's recommended practice, and what encoding/json does).
   Numbers carry the exact decimal (mantissa, exponent): value = m * 10^e with
   m the signed integer made of all int and frac digits, e = exp - #fracdigits.
   Unescaped non-ASCII characters are the well-formed UTF-8 byte sequences of
   the Unicode standard (Table 3-7), so "the text is valid UTF-8" is built into
   the grammar (RFC 8259 §8.1). *)
From HclV Require Import Base.Prelude.

(* ---- values ---------------------------------------------------------------- *)

(* JInvalid is never produced by the reference; it is the parser model's image
   of json.invalidVal and lives here only so that both sides share one type. *)
Inductive jvalue :=
| JNull
| JBool (b : bool)
| JNum (m e : Z)                       (* m * 10^e, exact *)
| JStr (s : list Z)                    (* bytes after unescaping *)
| JArr (vs : list jvalue)
| JObj (ms : list (list Z * jvalue))   (* ordered, duplicates preserved *)
| JInvalid.

(* UTF-8 encoding of a code point (shared helper). *)
Definition utf8_encode (cp : Z) : list Z :=
  if cp <? 128 then [cp]
  else if cp <? 2048 then [192 + cp / 64; 128 + cp mod 64]
  else if cp <? 65536 then [224 + cp / 4096; 128 + (cp / 64) mod 64; 128 + cp mod 64]
  else [240 + cp / 262144; 128 + (cp / 4096) mod 64; 128 + (cp / 64) mod 64; 128 + cp mod 64].

Definition fffd : list Z := [239; 191; 189].

(* ---- ws (RFC 8259 §2) ------------------------------------------------------ *)

Definition ws_byte (b : Z) : Prop := b = 32 \/ b = 9 \/ b = 10 \/ b = 13.
Definition WS (w : list Z) : Prop := Forall ws_byte w.

(* ---- numbers (§6) ---------------------------------------------------------- *)

Definition digit (b : Z) : Prop := 48 <= b <= 57.
Definition dec_val (ds : list Z) : Z := fold_left (fun a d => 10 * a + (d - 48)) ds 0.

Inductive IntPart : list Z -> Prop :=
| Int_zero : IntPart [48]
| Int_nz d ds : 49 <= d <= 57 -> Forall digit ds -> IntPart (d :: ds).

(* frac = dot 1*DIGIT ; second index: the fraction digits *)
Inductive FracPart : list Z -> list Z -> Prop :=
| Frac_none : FracPart [] []
| Frac_some d ds : Forall digit (d :: ds) -> FracPart (46 :: d :: ds) (d :: ds).

(* exp = (e / E) [plus / minus] 1*DIGIT ; second index: its value *)
Inductive ExpPart : list Z -> Z -> Prop :=
| Exp_none : ExpPart [] 0
| Exp_plain c d ds : c = 101 \/ c = 69 -> Forall digit (d :: ds) -> ExpPart (c :: d :: ds) (dec_val (d :: ds))
| Exp_plus c d ds : c = 101 \/ c = 69 -> Forall digit (d :: ds) -> ExpPart (c :: 43 :: d :: ds) (dec_val (d :: ds))
| Exp_minus c d ds : c = 101 \/ c = 69 -> Forall digit (d :: ds) -> ExpPart (c :: 45 :: d :: ds) (- dec_val (d :: ds)).

Inductive Number : list Z -> Z -> Z -> Prop :=
| Num_pos ip fp fds ep x :
    IntPart ip -> FracPart fp fds -> ExpPart ep x ->
    Number (ip ++ fp ++ ep) (dec_val (ip ++ fds)) (x - Z.of_nat (length fds))
| Num_neg ip fp fds ep x :
    IntPart ip -> FracPart fp fds -> ExpPart ep x ->
    Number (45 :: ip ++ fp ++ ep) (- dec_val (ip ++ fds)) (x - Z.of_nat (length fds)).

(* ---- strings (§7) ---------------------------------------------------------- *)

Definition cont (b : Z) : Prop := 128 <= b <= 191.

(* Well-formed multi-byte UTF-8 sequences, Unicode Table 3-7. *)
Inductive Utf8Multi : list Z -> Prop :=
| U2 b1 b2 : 194 <= b1 <= 223 -> cont b2 -> Utf8Multi [b1; b2]
| U3_E0 b2 b3 : 160 <= b2 <= 191 -> cont b3 -> Utf8Multi [224; b2; b3]
| U3_E1 b1 b2 b3 : 225 <= b1 <= 236 -> cont b2 -> cont b3 -> Utf8Multi [b1; b2; b3]
| U3_ED b2 b3 : 128 <= b2 <= 159 -> cont b3 -> Utf8Multi [237; b2; b3]
| U3_EE b1 b2 b3 : 238 <= b1 <= 239 -> cont b2 -> cont b3 -> Utf8Multi [b1; b2; b3]
| U4_F0 b2 b3 b4 : 144 <= b2 <= 191 -> cont b3 -> cont b4 -> Utf8Multi [240; b2; b3; b4]
| U4_F1 b1 b2 b3 b4 : 241 <= b1 <= 243 -> cont b2 -> cont b3 -> cont b4 -> Utf8Multi [b1; b2; b3; b4]
| U4_F4 b2 b3 b4 : 128 <= b2 <= 143 -> cont b3 -> cont b4 -> Utf8Multi [244; b2; b3; b4].

(* unescaped = %x20-21 / %x23-5B / %x5D-10FFFF, UTF-8 encoded *)
Inductive Unescaped : list Z -> Prop :=
| Un_ascii b : 32 <= b <= 127 -> b <> 34 -> b <> 92 -> Unescaped [b]
| Un_multi bs : Utf8Multi bs -> Unescaped bs.

Definition hexdig (h : Z) : Prop := 48 <= h <= 57 \/ 65 <= h <= 70 \/ 97 <= h <= 102.
Definition hexv (h : Z) : Z :=
  if h <=? 57 then h - 48 else if h <=? 70 then h - 55 else h - 87.

(* The characters of a string, as written. *)
Inductive sitem :=
| IRaw (bs : list Z)            (* one unescaped character *)
| IEsc (c : Z)                  (* one of the eight two-character escapes, c = the letter after the backslash *)
| IUni (h1 h2 h3 h4 : Z).       (* \uXXXX *)

Definition item_bytes (i : sitem) : list Z :=
  match i with
  | IRaw bs => bs
  | IEsc c => [92; c]
  | IUni h1 h2 h3 h4 => [92; 117; h1; h2; h3; h4]
  end.

Definition esc_letter (c : Z) : Prop :=
  c = 34 \/ c = 92 \/ c = 47 \/ c = 98 \/ c = 102 \/ c = 110 \/ c = 114 \/ c = 116.

Definition item_ok (i : sitem) : Prop :=
  match i with
  | IRaw bs => Unescaped bs
  | IEsc c => esc_letter c
  | IUni h1 h2 h3 h4 => hexdig h1 /\ hexdig h2 /\ hexdig h3 /\ hexdig h4
  end.

Definition esc_val (c : Z) : Z :=
  if c =? 98 then 8 else if c =? 102 then 12 else if c =? 110 then 10
  else if c =? 114 then 13 else if c =? 116 then 9 else c.

Definition u16 (h1 h2 h3 h4 : Z) : Z := 4096 * hexv h1 + 256 * hexv h2 + 16 * hexv h3 + hexv h4.
Definition is_high (u : Z) : bool := (55296 <=? u) && (u <? 56320).
Definition is_low (u : Z) : bool := (56320 <=? u) && (u <? 57344).
Definition pair_cp (hi lo : Z) : Z := 65536 + (hi - 55296) * 1024 + (lo - 56320).

(* The denoted characters, UTF-8 encoded: a high surrogate escape immediately
   followed by a low surrogate escape is one supplementary code point; any
   other surrogate escape is U+FFFD. *)
Fixpoint resolve (items : list sitem) : list Z :=
  match items with
  | [] => []
  | IRaw bs :: r => bs ++ resolve r
  | IEsc c :: r => esc_val c :: resolve r
  | IUni a b c d :: r =>
      let u := u16 a b c d in
      if is_high u then
        match r with
        | IUni a' b' c' d' :: r' =>
            let u' := u16 a' b' c' d' in
            if is_low u' then utf8_encode (pair_cp u u') ++ resolve r'
            else fffd ++ resolve r
        | _ => fffd ++ resolve r
        end
      else if is_low u then fffd ++ resolve r
      else utf8_encode u ++ resolve r
  end.

Inductive StringLit : list Z -> list Z -> Prop :=
| Str items : Forall item_ok items ->
    StringLit (34 :: flat_map item_bytes items ++ [34]) (resolve items).

(* ---- values, arrays, objects (§3–§5) and the text (§2) -------------------- *)

Inductive Value : list Z -> jvalue -> Prop :=
| V_null : Value [110; 117; 108; 108] JNull
| V_true : Value [116; 114; 117; 101] (JBool true)
| V_false : Value [102; 97; 108; 115; 101] (JBool false)
| V_num bs m e : Number bs m e -> Value bs (JNum m e)
| V_str bs s : StringLit bs s -> Value bs (JStr s)
| V_arr0 w : WS w -> Value (91 :: w ++ [93]) (JArr [])
| V_arr bs vs : Elements bs vs -> Value (91 :: bs ++ [93]) (JArr vs)
| V_obj0 w : WS w -> Value (123 :: w ++ [125]) (JObj [])
| V_obj bs ms : Members bs ms -> Value (123 :: bs ++ [125]) (JObj ms)
with Elements : list Z -> list jvalue -> Prop :=
| E_one w1 bs w2 v :
    WS w1 -> Value bs v -> WS w2 -> Elements (w1 ++ bs ++ w2) [v]
| E_cons w1 bs w2 v rest vs :
    WS w1 -> Value bs v -> WS w2 -> Elements rest vs ->
    Elements (w1 ++ bs ++ w2 ++ 44 :: rest) (v :: vs)
with Members : list Z -> list (list Z * jvalue) -> Prop :=
| M_one w1 kb k w2 w3 bs w4 v :
    WS w1 -> StringLit kb k -> WS w2 -> WS w3 -> Value bs v -> WS w4 ->
    Members (w1 ++ kb ++ w2 ++ 58 :: w3 ++ bs ++ w4) [(k, v)]
| M_cons w1 kb k w2 w3 bs w4 v rest ms :
    WS w1 -> StringLit kb k -> WS w2 -> WS w3 -> Value bs v -> WS w4 ->
    Members rest ms ->
    Members (w1 ++ kb ++ w2 ++ 58 :: w3 ++ bs ++ w4 ++ 44 :: rest) ((k, v) :: ms).

Inductive JsonText : list Z -> jvalue -> Prop :=
| Text w1 bs w2 v : WS w1 -> Value bs v -> WS w2 -> JsonText (w1 ++ bs ++ w2) v.

(* ---- the strict recogniser (the ORACLE of the harness) -------------------- *)

Definition is_ws (b : Z) : bool := (b =? 32) || (b =? 9) || (b =? 10) || (b =? 13).
Definition is_digit (b : Z) : bool := (48 <=? b) && (b <=? 57).
Definition is_hexdig (h : Z) : bool :=
  ((48 <=? h) && (h <=? 57)) || ((65 <=? h) && (h <=? 70)) || ((97 <=? h) && (h <=? 102)).
Definition is_cont (b : Z) : bool := (128 <=? b) && (b <=? 191).
Definition in_range (lo hi b : Z) : bool := (lo <=? b) && (b <=? hi).

Fixpoint skip_ws (bs : list Z) : list Z :=
  match bs with
  | b :: r => if is_ws b then skip_ws r else bs
  | [] => []
  end.

(* longest prefix of digits *)
Fixpoint take_digits (bs : list Z) : list Z * list Z :=
  match bs with
  | b :: r => if is_digit b then let (ds, r') := take_digits r in (b :: ds, r') else ([], bs)
  | [] => ([], [])
  end.

(* the prefix p stripped from bs, if bs starts with p *)
Fixpoint strip_prefix (p bs : list Z) : option (list Z) :=
  match p, bs with
  | [], _ => Some bs
  | a :: p', b :: bs' => if a =? b then strip_prefix p' bs' else None
  | _ :: _, [] => None
  end.

Definition is_nil {A} (l : list A) : bool := match l with [] => true | _ => false end.

(* int = zero / ( digit1-9 *DIGIT ) : (digits, rest) *)
Definition take_int (bs : list Z) : option (list Z * list Z) :=
  let (ip, r) := take_digits bs in
  match ip with
  | [] => None
  | d :: ds => if (d =? 48) && negb (is_nil ds) then None else Some (ip, r)
  end.

(* [ frac ] : (fraction digits, rest) *)
Definition take_frac (bs : list Z) : option (list Z * list Z) :=
  match bs with
  | b :: r =>
      if b =? 46 then
        let (f, r') := take_digits r in
        if is_nil f then None else Some (f, r')
      else Some ([], bs)
  | [] => Some ([], [])
  end.

Definition exp_digits (neg : bool) (bs : list Z) : option (Z * list Z) :=
  let (e, r) := take_digits bs in
  if is_nil e then None else Some ((if neg then - dec_val e else dec_val e), r).

(* [ exp ] : (value, rest) *)
Definition take_exp (bs : list Z) : option (Z * list Z) :=
  match bs with
  | c :: r =>
      if (c =? 101) || (c =? 69) then
        match r with
        | s :: r' => if s =? 43 then exp_digits false r'
                     else if s =? 45 then exp_digits true r'
                     else exp_digits false r
        | [] => None
        end
      else Some (0, bs)
  | [] => Some (0, [])
  end.

(* int [frac] [exp] : (mantissa >= 0, exponent, rest) *)
Definition take_unsigned (bs : list Z) : option (Z * Z * list Z) :=
  match take_int bs with
  | None => None
  | Some (ip, r1) =>
      match take_frac r1 with
      | None => None
      | Some (fds, r2) =>
          match take_exp r2 with
          | None => None
          | Some (x, r3) => Some (dec_val (ip ++ fds), x - Z.of_nat (length fds), r3)
          end
      end
  end.

Definition take_number (bs : list Z) : option (Z * Z * list Z) :=
  match bs with
  | b :: r =>
      if b =? 45 then
        match take_unsigned r with
        | Some (m, e, r') => Some (- m, e, r')
        | None => None
        end
      else take_unsigned bs
  | [] => None
  end.

Definition is_esc_letter (c : Z) : bool :=
  (c =? 34) || (c =? 92) || (c =? 47) || (c =? 98) || (c =? 102) || (c =? 110) || (c =? 114) || (c =? 116).

Definition three_ok (b1 b2 b3 : Z) : bool :=
  ((b1 =? 224) && in_range 160 191 b2 && is_cont b3)
  || (in_range 225 236 b1 && is_cont b2 && is_cont b3)
  || ((b1 =? 237) && in_range 128 159 b2 && is_cont b3)
  || (in_range 238 239 b1 && is_cont b2 && is_cont b3).

Definition four_ok (b1 b2 b3 b4 : Z) : bool :=
  ((b1 =? 240) && in_range 144 191 b2 && is_cont b3 && is_cont b4)
  || (in_range 241 243 b1 && is_cont b2 && is_cont b3 && is_cont b4)
  || ((b1 =? 244) && in_range 128 143 b2 && is_cont b3 && is_cont b4).

Definition cons_item (i : sitem) (o : option (list sitem * list Z)) : option (list sitem * list Z) :=
  match o with Some (is, r) => Some (i :: is, r) | None => None end.

(* the characters of a string up to and including the closing quote (the
   opening quote already consumed) *)
Fixpoint take_items (bs : list Z) : option (list sitem * list Z) :=
  match bs with
  | [] => None
  | b1 :: r1 =>
      if b1 =? 34 then Some ([], r1)
      else if b1 =? 92 then
        match r1 with
        | [] => None
        | c :: r2 =>
            if c =? 117 then
              match r2 with
              | h1 :: h2 :: h3 :: h4 :: r6 =>
                  if is_hexdig h1 && is_hexdig h2 && is_hexdig h3 && is_hexdig h4
                  then cons_item (IUni h1 h2 h3 h4) (take_items r6) else None
              | _ => None
              end
            else if is_esc_letter c then cons_item (IEsc c) (take_items r2)
            else None
        end
      else if b1 <? 32 then None
      else if b1 <? 128 then cons_item (IRaw [b1]) (take_items r1)
      else
        match r1 with
        | [] => None
        | b2 :: r2 =>
            if in_range 194 223 b1 && is_cont b2 then cons_item (IRaw [b1; b2]) (take_items r2)
            else
              match r2 with
              | [] => None
              | b3 :: r3 =>
                  if three_ok b1 b2 b3 then cons_item (IRaw [b1; b2; b3]) (take_items r3)
                  else
                    match r3 with
                    | [] => None
                    | b4 :: r4 =>
                        if four_ok b1 b2 b3 b4 then cons_item (IRaw [b1; b2; b3; b4]) (take_items r4)
                        else None
                    end
              end
        end
  end.

Definition take_string (bs : list Z) : option (list Z * list Z) :=
  match bs with
  | b :: r =>
      if b =? 34 then
        match take_items r with
        | Some (is, r') => Some (resolve is, r')
        | None => None
        end
      else None
  | [] => None
  end.

Definition kw_null : list Z := [110; 117; 108; 108].
Definition kw_true : list Z := [116; 114; 117; 101].
Definition kw_false : list Z := [102; 97; 108; 115; 101].

(* value / elements / members by recursive descent.  [dec_elems] and
   [dec_members] consume the closing bracket. *)
Fixpoint dec_value (fuel : nat) (bs : list Z) : option (jvalue * list Z) :=
  match fuel with O => None | S f =>
    match bs with
    | [] => None
    | b :: r =>
        if b =? 34 then
          match take_string bs with
          | Some (s, r') => Some (JStr s, r')
          | None => None
          end
        else if b =? 91 then
          match skip_ws r with
          | [] => None
          | c :: r' =>
              if c =? 93 then Some (JArr [], r')
              else match dec_elems f r with
                   | Some (vs, r'') => Some (JArr vs, r'')
                   | None => None
                   end
          end
        else if b =? 123 then
          match skip_ws r with
          | [] => None
          | c :: r' =>
              if c =? 125 then Some (JObj [], r')
              else match dec_members f r with
                   | Some (ms, r'') => Some (JObj ms, r'')
                   | None => None
                   end
          end
        else if b =? 110 then
          match strip_prefix kw_null bs with Some r' => Some (JNull, r') | None => None end
        else if b =? 116 then
          match strip_prefix kw_true bs with Some r' => Some (JBool true, r') | None => None end
        else if b =? 102 then
          match strip_prefix kw_false bs with Some r' => Some (JBool false, r') | None => None end
        else
          match take_number bs with
          | Some (m, e, r') => Some (JNum m e, r')
          | None => None
          end
    end
  end
with dec_elems (fuel : nat) (bs : list Z) : option (list jvalue * list Z) :=
  match fuel with O => None | S f =>
    match dec_value f (skip_ws bs) with
    | Some (v, r) =>
        match skip_ws r with
        | [] => None
        | c :: r' =>
            if c =? 93 then Some ([v], r')
            else if c =? 44 then
              match dec_elems f r' with
              | Some (vs, r'') => Some (v :: vs, r'')
              | None => None
              end
            else None
        end
    | None => None
    end
  end
with dec_members (fuel : nat) (bs : list Z) : option (list (list Z * jvalue) * list Z) :=
  match fuel with O => None | S f =>
    match take_string (skip_ws bs) with
    | Some (k, r0) =>
        match skip_ws r0 with
        | [] => None
        | c0 :: r1 =>
            if c0 =? 58 then
              match dec_value f (skip_ws r1) with
              | Some (v, r) =>
                  match skip_ws r with
                  | [] => None
                  | c :: r' =>
                      if c =? 125 then Some ([(k, v)], r')
                      else if c =? 44 then
                        match dec_members f r' with
                        | Some (ms, r'') => Some ((k, v) :: ms, r'')
                        | None => None
                        end
                      else None
                  end
              | None => None
              end
            else None
        end
    | None => None
    end
  end.

Definition json_text_dec (bs : list Z) : option jvalue :=
  match dec_value (2 * length bs + 2) (skip_ws bs) with
  | Some (v, r) => match skip_ws r with [] => Some v | _ => None end
  | None => None
  end.
