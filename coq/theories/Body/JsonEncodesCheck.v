(* Body/JsonEncodesCheck.v — C03: correspondence checker.  A case carries the
   schema tree S, the abstract configuration c, the JSON value j the generator
   chose (one derivation of json_encodes, or a mutation of one), and what the
   real code returned for Content / PartialContent / JustAttributes at every
   level of S, for json.Parse(j) and for hclsyntax.ParseConfig(native text of c).

   check_c03_case:
     - the JSON model (Body/Json.v) run on j agrees with the observed JSON tree,
     - the native model (Body/Native.v) run on native_of c agrees with the
       observed native tree,
     - if the generator claims the encoding admissible: json_encodes_b S c j
       holds (so json_encodes S c j, by json_encodes_b_sound, and the theorems
       of Props/C03.v apply to this very case) and the two observed trees are
       equal (what json_native_content_equiv predicts). *)
From HclV Require Import Base.Prelude Body.Laws Body.Native Body.Json Cty.Values Body.JsonEncodes.
From Coq Require Import String Ascii.
Open Scope list_scope.
Open Scope Z_scope.

Fixpoint string_of_bytes (l : list Z) : string :=
  match l with
  | [] => EmptyString
  | b :: r => String (ascii_of_nat (Z.to_nat b)) (string_of_bytes r)
  end.
(* strings that are not plain ASCII travel as hex *)
Definition sx (h : string) : string := string_of_bytes (unhex h).

(* ---- template mode (non-nil EvalContext) -------------------------------------------
   json/structure.go expression.Value with a context parses every JSON string — string
   values AND the keys of object VALUES — as a native template.  The generator only writes
   literal templates, in which "$${" and "%%{" stand for "${" and "%{".  Property names read
   as attribute names, block types or labels are NOT templates: so the un-escaping belongs
   to evaluation (here), not to the JSON value handed to the body model. *)
Fixpoint unesc_tmpl (s : string) : string :=
  match s with
  | EmptyString => EmptyString
  | String a r =>
      match r with
      | String b (String c r2) =>
          if ((Ascii.eqb a "$"%char && Ascii.eqb b "$"%char) || (Ascii.eqb a "%"%char && Ascii.eqb b "%"%char))
             && Ascii.eqb c "{"%char
          then String a (String c (unesc_tmpl r2))
          else String a (unesc_tmpl r)
      | _ => String a (unesc_tmpl r)
      end
  end.

Fixpoint unesc_jv (v : jvalue) : jvalue :=
  match v with
  | JStr s => JStr (unesc_tmpl s)
  | JArr l => JArr (map unesc_jv l)
  | JObj ms => JObj (map (fun m => (unesc_tmpl (fst m), unesc_jv (snd m))) ms)
  | _ => v
  end.

(* the JSON body implementation evaluated with (tmpl = true) or without a context *)
Definition json_sem_t (tmpl : bool) : BodySem jvalue jbody :=
  {| bs_impl := json_impl; bs_child := jchild;
     bs_eval := fun v => jexpr_val (if tmpl then unesc_jv v else v) |}.

(* observed: attributes (name, value, evaluation reported an error), blocks
   (type, labels, subtree), Content has errors, PartialContent has errors.
   At a JustAttributes level both flags are JustAttributes' error-ness. *)
Inductive otree :=
| ONode (attrs : list (name * val * bool)) (blocks : list (name * list name * otree))
        (cerr perr : bool).

Definition nonnil {A} (l : list A) : bool := match l with [] => false | _ => true end.

Section Model.
Context {V B : Type} (X : BodySem V B).

Fixpoint mtree (S : stree) (b : B) : otree :=
  match S with
  | SJust =>
      let '(al, ds) := b_just_attrs (bs_impl X) b in
      ONode (map (fun a => (aname a, fst (bs_eval X (aval a)), snd (bs_eval X (aval a)))) al)
            [] (nonnil ds) (nonnil ds)
  | SNode sa sb kid =>
      let s := level_schema_of sa sb in
      let '(c, ds) := b_content (bs_impl X) s b in
      let pds := snd (b_partial (bs_impl X) s b) in
      ONode (map (fun a => (aname a, fst (bs_eval X (aval a)), snd (bs_eval X (aval a)))) (cattrs c))
            (map (fun bl => (btype bl, blabels bl, mtree (kid (btype bl)) (bs_child X (bbody bl))))
                 (cblocks c))
            (nonnil ds) (nonnil pds)
  end.
End Model.

Definition find_oattr (n : name) (l : list (name * val * bool)) : option (val * bool) :=
  match find (fun a => String.eqb n (fst (fst a))) l with
  | Some a => Some (snd (fst a), snd a)
  | None => None
  end.

(* attribute maps: Go returns a map, so order is not compared *)
Definition attrs_match (skip : bool) (m o : list (name * val * bool)) : bool :=
  Nat.eqb (List.length m) (List.length o) &&
  forallb (fun a => match find_oattr (fst (fst a)) m with
                    | Some (v, e) => (skip || val_eqb v (snd (fst a))) && Bool.eqb e (snd a)
                    | None => false
                    end) o.

Fixpoint tree_match (skip : bool) (m o : otree) {struct m} : bool :=
  match m, o with
  | ONode ma mb mc mp, ONode oa ob oc op =>
      attrs_match skip ma oa &&
      (fix go (mb ob : list (name * list name * otree)) : bool :=
         match mb, ob with
         | [], [] => true
         | (t, ls, x) :: r, (t', ls', y) :: r' =>
             String.eqb t t' && names_eqb ls ls' && tree_match skip x y && go r r'
         | _, _ => false
         end) mb ob &&
      Bool.eqb mc oc && Bool.eqb mp op
  end.

Record c03case := mkCase {
  cS : stree; cC : cfg; cJ : jvalue;   (* cJ: the JSON document as written (escapes included) *)
  cTmpl : bool;       (* evaluated with a non-nil EvalContext: JSON strings are templates *)
  cAdm : bool;        (* the generator claims: j is an admissible encoding of c under S *)
  cSkip : bool;       (* attribute values are outside the value model (inexact numbers, NFC) *)
  cOJ : otree;        (* observed on the JSON body *)
  cON : otree         (* observed on the native body *)
}.

(* the JSON value the relation speaks about: in template mode an admissible document
   spells every string of the configuration escaped; names of an admissible document
   carry no template sequence, so un-escaping the whole document is harmless there *)
Definition enc_view (k : c03case) : jvalue := if cTmpl k then unesc_jv (cJ k) else cJ k.

Definition check_c03_case (k : c03case) : bool :=
  tree_match (cSkip k) (mtree (json_sem_t (cTmpl k)) (cS k) (jroot (cJ k))) (cOJ k) &&
  tree_match (cSkip k) (mtree native_sem (cS k) (native_of (cC k))) (cON k) &&
  (if cAdm k
   then json_encodes_b (cS k) (cC k) (enc_view k) && tree_match false (cOJ k) (cON k)
   else true).

Definition check_c03_cases (l : list c03case) : list Z := failing check_c03_case l.

(* indices of the cases the theorems of Props/C03.v apply to (json_encodes holds) *)
Definition c03_applicable (l : list c03case) : list Z :=
  failing (fun k => negb (json_encodes_b (cS k) (cC k) (enc_view k))) l.
