(* Body/JsonEncodesCheck.v — C03: correspondence checker.  A case carries the
   schema tree S, the abstract configuration c, the JSON value j the generator
   chose (one derivation of json_encodes, or a mutation of one), and what the
   real code returned for Content / PartialContent / JustAttributes at every
   level of S, for json.Parse(j) and for hclsyntax.ParseConfig(native text of c).

   check_c03_case:
     - the JSON model (Body/Json.v) run on j agrees with the observed JSON tree,
     - the native model (Body/Native.v) run on native_of c agrees with the
       observed native tree,
     - if the generator claims the encoding admissible: json_encodes_b S c j
       holds (so json_encodes S c j, by json_encodes_b_sound, and the theorems
       of Props/C03.v apply to this very case) and the two observed trees are
       equal (what json_native_content_equiv predicts). *)
From HclV Require Import Base.Prelude Body.Laws Body.Native Body.Json Cty.Values Body.JsonEncodes.
From Coq Require Import String Ascii.
Open Scope list_scope.
Open Scope Z_scope.

Fixpoint string_of_bytes (l : list Z) : string :=
  match l with
  | [] => EmptyString
  | b :: r => String (ascii_of_nat (Z.to_nat b)) (string_of_bytes r)
  end.
(* strings that are not plain ASCII travel as hex *)
Definition sx (h : string) : string := string_of_bytes (unhex h).

(* observed: attributes (name, value, evaluation reported an error), blocks
   (type, labels, subtree), Content has errors, PartialContent has errors.
   At a JustAttributes level both flags are JustAttributes' error-ness. *)
Inductive otree :=
| ONode (attrs : list (name * val * bool)) (blocks : list (name * list name * otree))
        (cerr perr : bool).

Definition nonnil {A} (l : list A) : bool := match l with [] => false | _ => true end.

Section Model.
Context {V B : Type} (X : BodySem V B).

Fixpoint mtree (S : stree) (b : B) : otree :=
  match S with
  | SJust =>
      let '(al, ds) := b_just_attrs (bs_impl X) b in
      ONode (map (fun a => (aname a, fst (bs_eval X (aval a)), snd (bs_eval X (aval a)))) al)
            [] (nonnil ds) (nonnil ds)
  | SNode sa sb kid =>
      let s := level_schema_of sa sb in
      let '(c, ds) := b_content (bs_impl X) s b in
      let pds := snd (b_partial (bs_impl X) s b) in
      ONode (map (fun a => (aname a, fst (bs_eval X (aval a)), snd (bs_eval X (aval a)))) (cattrs c))
            (map (fun bl => (btype bl, blabels bl, mtree (kid (btype bl)) (bs_child X (bbody bl))))
                 (cblocks c))
            (nonnil ds) (nonnil pds)
  end.
End Model.

Definition find_oattr (n : name) (l : list (name * val * bool)) : option (val * bool) :=
  match find (fun a => String.eqb n (fst (fst a))) l with
  | Some a => Some (snd (fst a), snd a)
  | None => None
  end.

(* attribute maps: Go returns a map, so order is not compared *)
Definition attrs_match (skip : bool) (m o : list (name * val * bool)) : bool :=
  Nat.eqb (List.length m) (List.length o) &&
  forallb (fun a => match find_oattr (fst (fst a)) m with
                    | Some (v, e) => (skip || val_eqb v (snd (fst a))) && Bool.eqb e (snd a)
                    | None => false
                    end) o.

Fixpoint tree_match (skip : bool) (m o : otree) {struct m} : bool :=
  match m, o with
  | ONode ma mb mc mp, ONode oa ob oc op =>
      attrs_match skip ma oa &&
      (fix go (mb ob : list (name * list name * otree)) : bool :=
         match mb, ob with
         | [], [] => true
         | (t, ls, x) :: r, (t', ls', y) :: r' =>
             String.eqb t t' && names_eqb ls ls' && tree_match skip x y && go r r'
         | _, _ => false
         end) mb ob &&
      Bool.eqb mc oc && Bool.eqb mp op
  end.

Record c03case := mkCase {
  cS : stree; cC : cfg; cJ : jvalue;
  cAdm : bool;        (* the generator claims: j is an admissible encoding of c under S *)
  cSkip : bool;       (* attribute values are outside the value model (inexact numbers, NFC) *)
  cOJ : otree;        (* observed on the JSON body *)
  cON : otree         (* observed on the native body *)
}.

Definition check_c03_case (k : c03case) : bool :=
  tree_match (cSkip k) (mtree json_sem (cS k) (jroot (cJ k))) (cOJ k) &&
  tree_match (cSkip k) (mtree native_sem (cS k) (native_of (cC k))) (cON k) &&
  (if cAdm k
   then json_encodes_b (cS k) (cC k) (cJ k) && tree_match false (cOJ k) (cON k)
   else true).

Definition check_c03_cases (l : list c03case) : list Z := failing check_c03_case l.

(* indices of the cases the theorems of Props/C03.v apply to (json_encodes holds) *)
Definition c03_applicable (l : list c03case) : list Z :=
  failing (fun k => negb (json_encodes_b (cS k) (cC k) (cJ k))) l.
