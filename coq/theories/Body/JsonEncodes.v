(* Body/JsonEncodes.v — C03: "Native and JSON syntaxes denote the same
   configuration".  Definitions only.

   * [lit], [cfg]: the abstract configuration — ordered items; attributes carry
     JSON-expressible literal values (strings, numbers, booleans, null, arrays,
     objects), blocks carry labels and a nested configuration.
   * [native_of]: the hclsyntax.Body (Body/Native.v [nbody]) the native
     rendering of a configuration parses to.
   * [stree]: a schema TREE.  The JSON syntax needs the schema to tell blocks
     from attributes (json/spec.md "Structural Elements"), at every level: a
     node gives the attribute schemata, the block header schemata (type, number
     of labels) and, per block type, the tree for the bodies of such blocks;
     [SJust] is a body read in "dynamic attributes" mode (JustAttributes).
   * [json_encodes S c j]: the ADMISSIBLE JSON ENCODINGS of c under S, as an
     inductive relation following json/spec.md: a body is an object or an array
     of objects whose flattened property sequence is the item sequence; a block
     type with k labels is k nested label levels (each an object or an array of
     objects, at least one property) and then null (no block), an object (one
     block) or an array of bodies (one block each); consecutive blocks of one
     type may share a property, be split over repeated property names, and use
     arrays at any level; "//" properties may appear anywhere in body objects.
   * literal values: [lit_val] (native literal expression) and [jexpr_val]
     (json/structure.go expression.Value with a nil EvalContext).
   * [content_equiv]: the equivalence of two bodies (of ANY two implementations
     of the C04 interface [BodyImpl]) under a schema tree, stated through
     b_content / b_partial / b_just_attrs.

   What the relation excludes, on purpose (json/spec.md: "the schema is crucial
   to allow differentiation of attribute definitions and block definitions"):
   kind confusion (the schema names X as an attribute and the configuration has
   a block X, or the reverse), a label count different from the schema's,
   blocks inside a JustAttributes body, the name "//", duplicate keys inside an
   object VALUE (an error in JSON, last-one-wins in the native syntax) and
   template sequences in strings evaluated with a non-nil context.  Witnesses
   that each exclusion is necessary are in JsonEncodesProofs.v. *)
From HclV Require Import Base.Prelude Body.Laws Body.Native Body.Json Cty.Values.
From Coq Require Import String Ascii QArith.
Open Scope list_scope.
Open Scope Z_scope.

(* ---- literals ------------------------------------------------------------------ *)
(* numbers and booleans are the opaque leaves of Body/Json.v [JLeaf]; C03 fixes
   their reading: 0 = false, 1 = true, 2 + 1000*zigzag(m) + d = the decimal
   m * 10^-d (0 <= d < 1000) *)
Inductive lit :=
| LStr (s : string)
| LLeaf (tag : Z)
| LNull
| LArr (l : list lit)
| LObj (ms : list (string * lit)).

Fixpoint bytes_of (s : string) : list Z :=
  match s with
  | EmptyString => []
  | String a r => Z.of_nat (nat_of_ascii a) :: bytes_of r
  end.

Definition leaf_val (tag : Z) : val :=
  if tag =? 0 then VBool false
  else if tag =? 1 then VBool true
  else
    let u := tag - 2 in
    let d := u mod 1000 in
    let zz := u / 1000 in
    let m := if Z.even zz then zz / 2 else - ((zz + 1) / 2) in
    VNum (nq (Qmake m (Z.to_pos (10 ^ d)))).

(* cty.ObjectVal over a Go map filled in source order: a later definition of a
   key replaces an earlier one *)
Definition obj_of (kvs : list (list Z * val)) : list (list Z * val) :=
  fold_left (fun acc kv => assoc_set (fst kv) (snd kv) acc) kvs [].

(* the value of the native literal expression (hclsyntax LiteralValueExpr,
   TemplateExpr of one literal, TupleConsExpr, ObjectConsExpr with literal keys;
   null is cty.NullVal(cty.DynamicPseudoType)) *)
Fixpoint lit_val (l : lit) : val :=
  match l with
  | LStr s => VStr (bytes_of s)
  | LLeaf t => leaf_val t
  | LNull => VNull TDyn
  | LArr xs => VTuple (map lit_val xs)
  | LObj ms => VObj (obj_of (map (fun p => (bytes_of (fst p), lit_val (snd p))) ms))
  end.

(* the JSON rendering of a literal (whitespace and escapes are below the model) *)
Fixpoint enc_lit (l : lit) : jvalue :=
  match l with
  | LStr s => JStr s
  | LLeaf t => JLeaf t
  | LNull => JNull
  | LArr xs => JArr (map enc_lit xs)
  | LObj ms => JObj (map (fun p => (fst p, enc_lit (snd p))) ms)
  end.

Fixpoint nodupb (l : list name) : bool :=
  match l with [] => true | x :: r => negb (mem x r) && nodupb r end.

(* object values have unique keys, at every depth *)
Fixpoint lit_ok (l : lit) : bool :=
  match l with
  | LArr xs => forallb lit_ok xs
  | LObj ms => nodupb (map fst ms) && forallb (fun p => lit_ok (snd p)) ms
  | _ => true
  end.

(* func (e *expression) Value(nil) (json/structure.go:384-514): value and
   error-ness.  objectVal: the keys are literal strings (nil context); a key
   that is already defined is reported ("Duplicate object attribute") and
   skipped. *)
Fixpoint jexpr_val (v : jvalue) : val * bool :=
  match v with
  | JStr s => (VStr (bytes_of s), false)
  | JLeaf t => (leaf_val t, false)
  | JNull => (VNull TDyn, false)
  | JArr l => (VTuple (map (fun x => fst (jexpr_val x)) l), existsb (fun x => snd (jexpr_val x)) l)
  | JObj ms =>
      let step (st : list (list Z * val) * list name * bool) (p : name * val * bool) :=
        let '(acc, seen, err) := st in
        let '(n, x, e) := p in
        if mem n seen then (acc, seen, true)
        else (assoc_set (bytes_of n) x acc, n :: seen, err || e) in
      let '(acc, _, err) :=
        fold_left step (map (fun m => (fst m, fst (jexpr_val (snd m)), snd (jexpr_val (snd m)))) ms)
                  ([], [], false) in
      (VObj acc, err)
  end.

(* ---- abstract configurations ---------------------------------------------------- *)
Inductive citem :=
| CAttr (n : name) (l : lit)
| CBlock (t : name) (labels : list name) (body : list citem).
Definition cfg := list citem.

(* payload of the native body: attribute expressions and child bodies *)
Inductive cval := CLit (l : lit) | CBody (c : cfg).

Definition cattrs_of (c : cfg) : list (attr cval) :=
  flat_map (fun it => match it with
                      | CAttr n l => [{| aname := n; aval := CLit l |}]
                      | CBlock _ _ _ => [] end) c.
Definition cblocks_of (c : cfg) : list (block cval) :=
  flat_map (fun it => match it with
                      | CAttr _ _ => []
                      | CBlock t ls b => [{| btype := t; blabels := ls; bbody := CBody b |}] end) c.
Definition cattr_names (c : cfg) : list name := map aname (cattrs_of c).

(* the body hclsyntax.ParseConfig yields for the native rendering of c *)
Definition native_of (c : cfg) : nbody cval :=
  {| nattrs := cattrs_of c; nblocks := cblocks_of c; nhA := []; nhB := [] |}.

(* Block.Body *)
Definition nchild (v : cval) : nbody cval :=
  match v with CBody c => native_of c | CLit _ => native_of [] end.
Definition jchild (v : jvalue) : jbody := {| jval := v; jhidden := [] |}.
(* the body json.Parse yields *)
Definition jroot (j : jvalue) : jbody := jchild j.

(* Attribute.Expr.Value(nil) *)
Definition nexpr_val (v : cval) : val * bool :=
  match v with CLit l => (lit_val l, false) | CBody _ => (VUnk TDyn rf_none, true) end.

(* ---- schema trees ----------------------------------------------------------------- *)
Inductive stree :=
| SJust                                           (* JustAttributes *)
| SNode (sa : list (name * bool))                 (* AttributeSchema: name, required *)
        (sb : list (name * nat))                  (* BlockHeaderSchema: type, number of labels *)
        (kid : name -> stree).                    (* per block type: the tree of its bodies *)

Definition level_schema_of (sa : list (name * bool)) (sb : list (name * nat)) : schema :=
  {| sattrs := sa; sblocks := map (fun p => (fst p, Z.of_nat (snd p))) sb |}.
Definition level_schema (S : stree) : schema :=
  match S with SJust => empty_schema | SNode sa sb _ => level_schema_of sa sb end.
Definition kid_of (S : stree) (t : name) : stree :=
  match S with SJust => SJust | SNode _ _ kid => kid t end.

(* the label count the schema asks for; as Go's map: the LAST entry wins *)
Fixpoint slabels (t : name) (sb : list (name * nat)) : option nat :=
  match sb with
  | [] => None
  | (t', k) :: r =>
      match slabels t r with
      | Some k' => Some k'
      | None => if String.eqb t t' then Some k else None
      end
  end.

(* a level schema hcldec can produce: each attribute named once; "//" is not a name *)
Definition level_ok (sa : list (name * bool)) (sb : list (name * nat)) : Prop :=
  NoDup (map fst sa) /\ ~ In comment_name (map fst sa) /\ ~ In comment_name (map fst sb).

(* ---- the admissible encodings -------------------------------------------------------- *)
(* a JSON object, or a JSON array of objects: its flattened property sequence *)
Fixpoint objs_members (l : list jvalue) : option (list (name * jvalue)) :=
  match l with
  | [] => Some []
  | JObj ms :: r => match objs_members r with Some x => Some (ms ++ x) | None => None end
  | _ => None
  end.
Definition flat_of (v : jvalue) : option (list (name * jvalue)) :=
  match v with
  | JObj ms => Some ms
  | JArr l => objs_members l
  | _ => None
  end.

Definition blocks_of_type (t : name) (bs : list (list name * cfg)) : cfg :=
  map (fun b => CBlock t (fst b) (snd b)) bs.

(* a body read with JustAttributes: a single object; attributes only *)
Inductive enc_just : cfg -> list (name * jvalue) -> Prop :=
| EJ_nil : enc_just [] []
| EJ_comment c ms v : enc_just c ms -> enc_just c ((comment_name, v) :: ms)
| EJ_attr n l c ms :
    n <> comment_name -> lit_ok l = true -> enc_just c ms ->
    enc_just (CAttr n l :: c) ((n, enc_lit l) :: ms).

Inductive json_encodes : stree -> cfg -> jvalue -> Prop :=
(* "A body is represented in JSON as either a single JSON object or a JSON
   array of objects": the flattened property sequence is the item sequence *)
| EB_node sa sb kid c j ms :
    level_ok sa sb -> NoDup (cattr_names c) ->
    flat_of j = Some ms ->
    enc_props sa sb kid c ms ->
    json_encodes (SNode sa sb kid) c j
(* "in the dynamic attributes mode ... a single JSON object is always required" *)
| EB_just c ms :
    NoDup (cattr_names c) -> enc_just c ms ->
    json_encodes SJust c (JObj ms)

with enc_props : list (name * bool) -> list (name * nat) -> (name -> stree)
                 -> cfg -> list (name * jvalue) -> Prop :=
| EP_nil sa sb kid : enc_props sa sb kid [] []
(* "The special property name "//" ... is parsed and ignored" *)
| EP_comment sa sb kid c ms v :
    enc_props sa sb kid c ms -> enc_props sa sb kid c ((comment_name, v) :: ms)
(* an attribute: a property whose value is the literal.  The schema must not
   take the name for a block type (kind confusion) *)
| EP_attr sa sb kid n l c ms :
    n <> comment_name -> slabels n sb = None -> lit_ok l = true ->
    enc_props sa sb kid c ms ->
    enc_props sa sb kid (CAttr n l :: c) ((n, enc_lit l) :: ms)
(* a run of consecutive blocks of one type under one property (runs of one are
   "duplicate property names"; an empty run is the degenerate "no blocks").
   The schema must not take the type for an attribute name; a type it does not
   name at all must denote at least one block (else the native syntax has
   nothing to report) *)
| EP_blocks sa sb kid t k bs v c ms :
    t <> comment_name -> ~ In t (map fst sa) ->
    (slabels t sb = Some k \/ (slabels t sb = None /\ bs <> [])) ->
    enc_blocks k (kid t) [] bs v ->
    enc_props sa sb kid c ms ->
    enc_props sa sb kid (blocks_of_type t bs ++ c) ((t, v) :: ms)

(* enc_blocks k S used bs v: v, met below the labels [used] with k label levels
   still to come, denotes the blocks bs = (all labels, body), in order *)
with enc_blocks : nat -> stree -> list name -> list (list name * cfg) -> jvalue -> Prop :=
| EK_null S used : enc_blocks O S used [] JNull
| EK_one S used c ms :
    json_encodes S c (JObj ms) -> enc_blocks O S used [(used, c)] (JObj ms)
| EK_arr S used cs vs :
    enc_elems S cs vs -> enc_blocks O S used (map (fun c => (used, c)) cs) (JArr vs)
(* "a nested JSON object or JSON array of objects is required for each
   labelling level ... flattened ... Each object property serves as a label";
   at least one property (json/structure.go: "Missing block label") *)
| EK_level k S used bs v ms :
    flat_of v = Some ms -> ms <> [] ->
    enc_labels k S used bs ms ->
    enc_blocks (Datatypes.S k) S used bs v

with enc_labels : nat -> stree -> list name -> list (list name * cfg)
                  -> list (name * jvalue) -> Prop :=
| EL_nil k S used : enc_labels k S used [] []
| EL_cons k S used l v g bs ms :
    enc_blocks k S (used ++ [l]) g v ->
    enc_labels k S used bs ms ->
    enc_labels k S used (g ++ bs) ((l, v) :: ms)

(* "a JSON array of JSON objects that each represent a single block body" (an
   element may itself be an array of objects: it is a body) *)
with enc_elems : stree -> list cfg -> list jvalue -> Prop :=
| EE_nil S : enc_elems S [] []
| EE_cons S c v cs vs :
    json_encodes S c v -> enc_elems S cs vs -> enc_elems S (c :: cs) (v :: vs).

Scheme json_encodes_mind := Minimality for json_encodes Sort Prop
  with enc_props_mind := Minimality for enc_props Sort Prop
  with enc_blocks_mind := Minimality for enc_blocks Sort Prop
  with enc_labels_mind := Minimality for enc_labels Sort Prop
  with enc_elems_mind := Minimality for enc_elems Sort Prop.
Combined Scheme enc_mutind from json_encodes_mind, enc_props_mind, enc_blocks_mind,
  enc_labels_mind, enc_elems_mind.

(* ---- a decision procedure for the relation (used by the case checker) ---------------- *)
Fixpoint lit_eqb (a b : lit) {struct a} : bool :=
  match a, b with
  | LStr x, LStr y => String.eqb x y
  | LLeaf x, LLeaf y => x =? y
  | LNull, LNull => true
  | LArr xs, LArr ys =>
      (fix go (xs ys : list lit) : bool :=
         match xs, ys with
         | [], [] => true
         | x :: xs', y :: ys' => lit_eqb x y && go xs' ys'
         | _, _ => false
         end) xs ys
  | LObj xs, LObj ys =>
      (fix go (xs ys : list (string * lit)) : bool :=
         match xs, ys with
         | [], [] => true
         | (k, x) :: xs', (k', y) :: ys' => String.eqb k k' && lit_eqb x y && go xs' ys'
         | _, _ => false
         end) xs ys
  | _, _ => false
  end.

(* is v the rendering of l ? *)
Fixpoint is_enc_lit (l : lit) (v : jvalue) {struct l} : bool :=
  match l, v with
  | LStr x, JStr y => String.eqb x y
  | LLeaf x, JLeaf y => x =? y
  | LNull, JNull => true
  | LArr xs, JArr ys =>
      (fix go (xs : list lit) (ys : list jvalue) : bool :=
         match xs, ys with
         | [], [] => true
         | x :: xs', y :: ys' => is_enc_lit x y && go xs' ys'
         | _, _ => false
         end) xs ys
  | LObj xs, JObj ys =>
      (fix go (xs : list (string * lit)) (ys : list (name * jvalue)) : bool :=
         match xs, ys with
         | [], [] => true
         | (k, x) :: xs', (k', y) :: ys' => String.eqb k k' && is_enc_lit x y && go xs' ys'
         | _, _ => false
         end) xs ys
  | _, _ => false
  end.

Definition names_eqb (a b : list name) : bool := list_eqb String.eqb a b.

Fixpoint chk_just (c : cfg) (ms : list (name * jvalue)) : bool :=
  match ms with
  | [] => match c with [] => true | _ => false end
  | (n, v) :: r =>
      if String.eqb n comment_name then chk_just c r
      else match c with
           | CAttr n' l :: c' => String.eqb n n' && lit_ok l && is_enc_lit l v && chk_just c' r
           | _ => false
           end
  end.

Section Checker.
(* cb: the checker of the bodies of the blocks at hand *)
Variable cb : cfg -> jvalue -> bool.

(* one block of type t with labels [used] at the head of c, its body given by v *)
Definition chk_one (t : name) (used : list name) (v : jvalue) (c : cfg) : option cfg :=
  match c with
  | CBlock t' ls body :: c' =>
      if String.eqb t t' && names_eqb ls used && cb body v then Some c' else None
  | _ => None
  end.

Fixpoint chk_elems (t : name) (used : list name) (vs : list jvalue) (c : cfg) : option cfg :=
  match vs with
  | [] => Some c
  | v :: r => match chk_one t used v c with Some c' => chk_elems t used r c' | None => None end
  end.

(* consumes from the head of c the blocks v denotes; None = v is no encoding *)
Fixpoint chk_blocks (k : nat) (t : name) (used : list name) (v : jvalue) (c : cfg) : option cfg :=
  match k with
  | O =>
      match v with
      | JNull => Some c
      | JObj _ => chk_one t used v c
      | JArr vs => chk_elems t used vs c
      | _ => None
      end
  | Datatypes.S k' =>
      match flat_of v with
      | Some ((m :: _) as ms) =>
          (fix go (ms : list (name * jvalue)) (c : cfg) : option cfg :=
             match ms with
             | [] => Some c
             | (l, x) :: r =>
                 match chk_blocks k' t (used ++ [l]) x c with
                 | Some c' => go r c'
                 | None => None
                 end
             end) ms c
      | _ => None
      end
  end.
End Checker.

Definition head_labels (t : name) (c : cfg) : option nat :=
  match c with
  | CBlock t' ls _ :: _ => if String.eqb t t' then Some (List.length ls) else None
  | _ => None
  end.

Section PropsChecker.
Variables (sa : list (name * bool)) (sb : list (name * nat)).
Variable kidchk : name -> cfg -> jvalue -> bool.

Fixpoint chk_props (c : cfg) (ms : list (name * jvalue)) : bool :=
  match ms with
  | [] => match c with [] => true | _ => false end
  | (n, v) :: r =>
      if String.eqb n comment_name then chk_props c r
      else
        match slabels n sb with
        | Some k =>
            (* a block type of the schema *)
            negb (mem n (map fst sa)) &&
            match chk_blocks (kidchk n) k n [] v c with
            | Some c' => chk_props c' r
            | None => false
            end
        | None =>
            match c with
            | CAttr n' l :: c' =>
                String.eqb n n' && lit_ok l && is_enc_lit l v && chk_props c' r
            | CBlock _ _ _ :: _ =>
                (* a block type the schema does not name: at least one block *)
                negb (mem n (map fst sa)) &&
                match head_labels n c with
                | Some k =>
                    match chk_blocks (kidchk n) k n [] v c with
                    | Some c' => negb (Nat.eqb (List.length c') (List.length c)) && chk_props c' r
                    | None => false
                    end
                | None => false
                end
            | [] => false
            end
        end
  end.
End PropsChecker.

Definition level_okb (sa : list (name * bool)) (sb : list (name * nat)) : bool :=
  nodupb (map fst sa) && negb (mem comment_name (map fst sa)) && negb (mem comment_name (map fst sb)).

Fixpoint json_encodes_b (S : stree) (c : cfg) (j : jvalue) {struct S} : bool :=
  match S with
  | SJust =>
      match j with
      | JObj ms => nodupb (cattr_names c) && chk_just c ms
      | _ => false
      end
  | SNode sa sb kid =>
      level_okb sa sb && nodupb (cattr_names c) &&
      match flat_of j with
      | Some ms => chk_props sa sb (fun t => json_encodes_b (kid t)) c ms
      | None => false
      end
  end.

(* ---- equivalence of two bodies under a schema tree ------------------------------------ *)
(* A body implementation together with how to descend into a block's body and
   how to evaluate an attribute's expression (nil context): value, error-ness *)
Record BodySem (V B : Type) := {
  bs_impl : BodyImpl V B;
  bs_child : V -> B;
  bs_eval : V -> val * bool
}.
Arguments bs_impl {V B}. Arguments bs_child {V B}. Arguments bs_eval {V B}.

Definition json_sem : BodySem jvalue jbody :=
  {| bs_impl := json_impl; bs_child := jchild; bs_eval := jexpr_val |}.
Definition native_sem : BodySem cval (nbody cval) :=
  {| bs_impl := native_impl cval; bs_child := nchild; bs_eval := nexpr_val |}.

Definition find_named {V} (n : name) (l : list (attr V)) : option (attr V) :=
  find (fun a => String.eqb n (aname a)) l.

Section Equiv.
Context {V1 B1 V2 B2 : Type} (X1 : BodySem V1 B1) (X2 : BodySem V2 B2).

(* the same attribute names, with equal values and equal error-ness *)
Definition attrs_equiv (l1 : list (attr V1)) (l2 : list (attr V2)) : Prop :=
  forall n, option_map (fun a => bs_eval X1 (aval a)) (find_named n l1)
          = option_map (fun a => bs_eval X2 (aval a)) (find_named n l2).

(* JustAttributes: the same attributes in the same order *)
Definition attr_lists_equiv (l1 : list (attr V1)) (l2 : list (attr V2)) : Prop :=
  map (fun a => (aname a, bs_eval X1 (aval a))) l1
  = map (fun a => (aname a, bs_eval X2 (aval a))) l2.

Inductive content_equiv : stree -> B1 -> B2 -> Prop :=
| CE_just b1 b2 :
    attr_lists_equiv (fst (b_just_attrs (bs_impl X1) b1)) (fst (b_just_attrs (bs_impl X2) b2)) ->
    (snd (b_just_attrs (bs_impl X1) b1) = [] <-> snd (b_just_attrs (bs_impl X2) b2) = []) ->
    content_equiv SJust b1 b2
| CE_node sa sb kid b1 b2 :
    let s := level_schema_of sa sb in
    let c1 := fst (b_content (bs_impl X1) s b1) in
    let c2 := fst (b_content (bs_impl X2) s b2) in
    (* Content: same attributes *)
    attrs_equiv (cattrs c1) (cattrs c2) ->
    (* same block sequence — type, labels, order — and, recursively, equivalent
       block bodies under the child schema tree *)
    Forall2 (fun bl1 bl2 =>
               btype bl1 = btype bl2 /\ blabels bl1 = blabels bl2 /\
               content_equiv (kid (btype bl1)) (bs_child X1 (bbody bl1)) (bs_child X2 (bbody bl2)))
            (cblocks c1) (cblocks c2) ->
    (* PartialContent returns the same content as Content, on both sides *)
    fst (fst (b_partial (bs_impl X1) s b1)) = c1 ->
    fst (fst (b_partial (bs_impl X2) s b2)) = c2 ->
    (* a schema violation in one is a schema violation in the other *)
    (snd (b_content (bs_impl X1) s b1) = [] <-> snd (b_content (bs_impl X2) s b2) = []) ->
    (snd (b_partial (bs_impl X1) s b1) = [] <-> snd (b_partial (bs_impl X2) s b2) = []) ->
    content_equiv (SNode sa sb kid) b1 b2.
End Equiv.
