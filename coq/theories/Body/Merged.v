(* Body/Merged.v — C04: model of hcl.MergeBodies / mergedBodies,
   /repo/merged.go, parametric in the implementation of the children (any
   [BodyImpl]); plus the sum of two implementations (a merge whose children
   come from files of different syntaxes).  Definitions only. *)
From HclV Require Import Base.Prelude Body.Laws.
From Coq Require Import String.
Open Scope list_scope.
Open Scope Z_scope.

Section Merged.
Variable V : Type.
Variable C : Type.                 (* Go type(s) of the children *)
Variable I : BodyImpl V C.

(* type mergedBodies []Body *)
Definition mbody := list C.

(* func MergeBodies: children that are themselves merged bodies are unpacked
   (so empty bodies disappear and nesting is flattened) *)
Inductive mchild := Plain (c : C) | Nested (m : mbody).
Definition merge_bodies (l : list mchild) : mbody :=
  flat_map (fun ch => match ch with Plain c => [c] | Nested m => m end) l.

(* mergedSchema: same schema with no attribute marked required (merged.go:148-155) *)
Definition nonreq (s : schema) : schema :=
  {| sattrs := map (fun e => (fst e, false)) (sattrs s); sblocks := sblocks s |}.

(* merged.go:181-197: attributes of one child added to the merged content;
   a name that is already there is reported and the first definition kept *)
Fixpoint merge_attrs (acc new : list (attr V)) : list (attr V) * list diag :=
  match new with
  | [] => (acc, [])
  | a :: r =>
      if mem (aname a) (map aname acc)
      then let '(acc', ds) := merge_attrs acc r in (acc', (Duplicate, aname a) :: ds)
      else merge_attrs (acc ++ [a]) r
  end.

(* the loop of mergedContent (merged.go:163-202); [acc] = content.Attributes *)
Fixpoint merged_loop (s' : schema) (partial : bool) (bs : list C) (acc : list (attr V))
  : list (attr V) * list (block V) * list C * list diag :=
  match bs with
  | [] => (acc, [], [], [])
  | b :: rest =>
      let '(c, lo, d) :=
        if partial
        then let '(c, r, d) := b_partial I s' b in (c, [r], d)
        else let '(c, d) := b_content I s' b in (c, [], d) in
      let '(acc', dd) := merge_attrs acc (cattrs c) in
      let '(A, BL, LO, D) := merged_loop s' partial rest acc' in
      (A, cblocks c ++ BL, lo ++ LO, d ++ dd ++ D)
  end.

(* func (mb mergedBodies) mergedContent; required attributes are checked
   after merging (merged.go:204-223); leftoverBody = MergeBodies(leftovers) *)
Definition merged_content (s : schema) (partial : bool) (mb : mbody)
  : content V * mbody * list diag :=
  let '(A, BL, LO, D) := merged_loop (nonreq s) partial mb [] in
  ({| cattrs := A; cblocks := BL |}, LO, D ++ missing s A).

Definition mpartial (s : schema) (mb : mbody) := merged_content s true mb.
Definition mcontent (s : schema) (mb : mbody) : content V * list diag :=
  let '(c, _, d) := merged_content s false mb in (c, d).

(* func (mb mergedBodies) JustAttributes *)
Fixpoint mja_loop (bs : list C) (acc : list (attr V)) : list (attr V) * list diag :=
  match bs with
  | [] => (acc, [])
  | b :: rest =>
      let '(l, d) := b_just_attrs I b in
      let '(acc', dd) := merge_attrs acc l in
      let '(A, D) := mja_loop rest acc' in (A, d ++ dd ++ D)
  end.
Definition mjust_attrs (mb : mbody) := mja_loop mb [].

Definition merged_impl : BodyImpl V mbody :=
  {| b_partial := mpartial; b_content := mcontent; b_just_attrs := mjust_attrs;
     wf := fun mb => Forall (wf I) mb;
     items := fun mb => flat_map (items I) mb;
     body_diags := fun mb => flat_map (body_diags I) mb |}.

End Merged.

Arguments Plain {C}. Arguments Nested {C}.
Arguments merge_bodies {C}.
Arguments merged_impl {V C}.
Arguments merge_attrs {V}.
Arguments merged_loop {V C}.
Arguments merged_content {V C}.
Arguments mja_loop {V C}.

(* ---- children of two different Go types (e.g. *hclsyntax.Body and *json.body
   in one merge): the implementation that dispatches on the dynamic type ------ *)
Section Sum.
Variable V : Type.
Variables B1 B2 : Type.
Variable I1 : BodyImpl V B1.
Variable I2 : BodyImpl V B2.

Definition sum_impl : BodyImpl V (B1 + B2) :=
  {| b_partial := fun s b =>
       match b with
       | inl x => let '(c, r, d) := b_partial I1 s x in (c, inl r, d)
       | inr x => let '(c, r, d) := b_partial I2 s x in (c, inr r, d)
       end;
     b_content := fun s b => match b with inl x => b_content I1 s x | inr x => b_content I2 s x end;
     b_just_attrs := fun b => match b with inl x => b_just_attrs I1 x | inr x => b_just_attrs I2 x end;
     wf := fun b => match b with inl x => wf I1 x | inr x => wf I2 x end;
     items := fun b => match b with inl x => items I1 x | inr x => items I2 x end;
     body_diags := fun b => match b with inl x => body_diags I1 x | inr x => body_diags I2 x end |}.
End Sum.
Arguments sum_impl {V B1 B2}.
