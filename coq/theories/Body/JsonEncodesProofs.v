(* Body/JsonEncodesProofs.v — C03: proofs about Body/JsonEncodes.v.
   Main results:
     jexpr_enc_lit              the JSON literal mapping agrees with the native one
     json_native_content_equiv  json_encodes S c j -> the JSON body of j and the
                                native body of c are content_equiv under S
     schema_violation_iff       the diagnostics of Content/PartialContent, kind by kind
     json_encodes_b_sound       the decision procedure is sound
   and the witnesses showing that each exclusion of json_encodes is necessary. *)
From HclV Require Import Base.Prelude Body.Laws Body.LawsProofs Body.Native Body.NativeProofs
  Body.Json Body.JsonProofs Cty.Values Body.JsonEncodes.
From Coq Require Import String Ascii Permutation.
Open Scope list_scope.
Open Scope Z_scope.

(* ---- induction principle for literals ------------------------------------------------ *)
Section LitInd.
Variable P : lit -> Prop.
Hypothesis Hstr : forall s, P (LStr s).
Hypothesis Hleaf : forall t, P (LLeaf t).
Hypothesis Hnull : P LNull.
Hypothesis Harr : forall l, Forall P l -> P (LArr l).
Hypothesis Hobj : forall ms, Forall (fun p => P (snd p)) ms -> P (LObj ms).

Fixpoint lit_ind' (l : lit) : P l :=
  match l with
  | LStr s => Hstr s
  | LLeaf t => Hleaf t
  | LNull => Hnull
  | LArr xs =>
      Harr xs ((fix go (xs : list lit) : Forall P xs :=
                  match xs with
                  | [] => Forall_nil _
                  | x :: r => Forall_cons x (lit_ind' x) (go r)
                  end) xs)
  | LObj ms =>
      Hobj ms ((fix go (ms : list (string * lit)) : Forall (fun p => P (snd p)) ms :=
                  match ms with
                  | [] => Forall_nil _
                  | p :: r => Forall_cons p (lit_ind' (snd p)) (go r)
                  end) ms)
  end.
End LitInd.

Lemma nodupb_NoDup l : nodupb l = true <-> NoDup l.
Proof.
  induction l as [|x r IH]; cbn [nodupb].
  - split; [constructor|reflexivity].
  - rewrite andb_true_iff, negb_true_iff, mem_nIn, IH. split.
    + intros [H1 H2]. constructor; assumption.
    + intro H. inversion H; subst. tauto.
Qed.

(* ---- the literal mapping ---------------------------------------------------------------- *)
Definition jstep (st : list (list Z * val) * list name * bool) (p : name * val * bool) :=
  let '(acc, seen, err) := st in
  let '(n, x, e) := p in
  if mem n seen then (acc, seen, true)
  else (assoc_set (bytes_of n) x acc, n :: seen, err || e).

Lemma jexpr_val_obj ms :
  jexpr_val (JObj ms)
  = let '(acc, _, err) :=
      fold_left jstep (map (fun m => (fst m, fst (jexpr_val (snd m)), snd (jexpr_val (snd m)))) ms)
                ([], [], false) in
    (VObj acc, err).
Proof. reflexivity. Qed.

Lemma jstep_fold_nodup (kvs : list (name * val)) : forall acc seen,
  NoDup (map fst kvs) -> (forall n, In n (map fst kvs) -> ~ In n seen) ->
  fold_left jstep (map (fun kv => (fst kv, snd kv, false)) kvs) (acc, seen, false)
  = (fold_left (fun a kv => assoc_set (fst kv) (snd kv) a)
               (map (fun kv => (bytes_of (fst kv), snd kv)) kvs) acc,
     rev (map fst kvs) ++ seen, false).
Proof.
  induction kvs as [|[n x] r IH]; intros acc seen ND Hs; [reflexivity|].
  cbn [map fold_left fst snd] in *. inversion ND as [|? ? Hn ND']; subst.
  unfold jstep at 2. assert (mem n seen = false) as M.
  { apply mem_nIn. apply Hs. left. reflexivity. }
  rewrite M. cbn [orb]. rewrite IH; [|exact ND'|].
  - cbn [rev]. rewrite <- app_assoc. reflexivity.
  - intros n' Hn' [X|X]; [subst; contradiction|]. exact (Hs n' (or_intror Hn') X).
Qed.

Theorem jexpr_enc_lit : forall l, lit_ok l = true -> jexpr_val (enc_lit l) = (lit_val l, false).
Proof.
  induction l as [s|t| |xs IH|ms IH] using lit_ind'; intro OK; try reflexivity.
  - (* arrays *)
    cbn [enc_lit jexpr_val lit_val lit_ok] in *.
    assert (forall x, In x xs -> jexpr_val (enc_lit x) = (lit_val x, false)) as E.
    { intros x Hx. rewrite Forall_forall in IH. apply IH; [exact Hx|].
      rewrite forallb_forall in OK. apply OK. exact Hx. }
    f_equal.
    + f_equal. rewrite map_map. apply map_ext_in. intros x Hx. rewrite (E x Hx). reflexivity.
    + rewrite <- not_true_iff_false. intro X. apply existsb_exists in X.
      destruct X as [v [Hv Ev]]. apply in_map_iff in Hv. destruct Hv as [x [Ex Hx]]. subst v.
      rewrite (E x Hx) in Ev. discriminate.
  - (* objects *)
    cbn [enc_lit lit_val lit_ok] in *. apply andb_true_iff in OK. destruct OK as [ND OK].
    apply nodupb_NoDup in ND. rewrite jexpr_val_obj.
    assert (forall p, In p ms -> jexpr_val (enc_lit (snd p)) = (lit_val (snd p), false)) as E.
    { intros p Hp. rewrite Forall_forall in IH. apply IH; [exact Hp|].
      rewrite forallb_forall in OK. apply OK. exact Hp. }
    rewrite map_map. cbn [fst snd].
    assert (map (fun x : string * lit =>
                   (fst x, fst (jexpr_val (enc_lit (snd x))), snd (jexpr_val (enc_lit (snd x))))) ms
            = map (fun kv : name * val => (fst kv, snd kv, false))
                  (map (fun p : string * lit => (fst p, lit_val (snd p))) ms)) as EM.
    { rewrite map_map. apply map_ext_in. intros p Hp. rewrite (E p Hp). reflexivity. }
    rewrite EM, jstep_fold_nodup.
    + unfold obj_of. rewrite !map_map. cbn [fst snd]. reflexivity.
    + rewrite map_map. cbn [fst]. exact ND.
    + intros n _ [].
Qed.

(* ---- flattening --------------------------------------------------------------------------- *)
Lemma objs_members_collect l ms : objs_members l = Some ms ->
  flat_map (fun e => match e with JObj m => m | _ => [] end) l = ms /\
  flat_map (fun e => match e with JObj _ => [] | _ => [bad_type] end) l = [].
Proof.
  revert ms. induction l as [|e r IH]; intros ms H; cbn [objs_members] in H.
  - inversion H. split; reflexivity.
  - destruct e; try discriminate. destruct (objs_members r) as [x|]; [|discriminate].
    inversion H; subst. destruct (IH x eq_refl) as [E1 E2]. cbn [flat_map]. rewrite E1, E2.
    split; reflexivity.
Qed.

Lemma flat_collect v ms : flat_of v = Some ms -> collect_deep_attrs v = (ms, []).
Proof.
  destruct v; cbn [flat_of collect_deep_attrs]; intro H; try discriminate.
  - inversion H. reflexivity.
  - destruct (objs_members_collect _ _ H) as [E1 E2]. rewrite E1, E2. reflexivity.
Qed.

(* ---- one level of the JSON body, in general ------------------------------------------------- *)
Definition named (s : schema) (n : name) : bool := mem n (attr_names s) || mem n (block_names s).

(* what Content adds to PartialContent's diagnostics *)
Definition jleft (s : schema) (ms : list (name * jvalue)) : list diag :=
  flat_map (fun m => if String.eqb (fst m) comment_name then []
                     else if named s (fst m) then [] else [(ExtraneousProp, fst m)]) ms.

Lemma mits_nil ms : mits [] ms = map item_of_member ms.
Proof.
  unfold mits. f_equal. apply filter_all. intros x _. reflexivity.
Qed.

Lemma nil_of_no_elems {A} (l : list A) : (forall x, ~ In x l) -> l = [].
Proof. destruct l as [|a r]; [reflexivity|]. intro H. destruct (H a (or_introl eq_refl)). Qed.

Lemma jleftovers_jleft s ms used :
  (forall n, mem n used = existsb (fun it : item jvalue => String.eqb n (iname it) && consumed s it)
                                  (map item_of_member ms)) ->
  jleftovers ms used = jleft s ms.
Proof.
  intro H. unfold jleftovers, jleft. apply flat_map_ext_In. intros m Hm.
  destruct (String.eqb (fst m) comment_name); [reflexivity|].
  rewrite (H (fst m)).
  assert (existsb (fun it : item jvalue => String.eqb (fst m) (iname it) && consumed s it)
                  (map item_of_member ms) = named s (fst m)) as X; [|rewrite X; reflexivity].
  destruct (named s (fst m)) eqn:N.
  - apply existsb_exists. exists (item_of_member m). split; [apply in_map; exact Hm|].
    cbn [iname item_of_member]. rewrite String.eqb_refl, consumed_member. exact N.
  - rewrite <- not_true_iff_false. intro X. apply existsb_exists in X.
    destruct X as [it [Hit E]]. apply in_map_iff in Hit. destruct Hit as [m' [Em' _]]. subst it.
    cbn [iname item_of_member] in E. apply andb_true_iff in E. destruct E as [E1 E2].
    apply String.eqb_eq in E1. rewrite consumed_member, <- E1 in E2. unfold named in N. congruence.
Qed.

Lemma json_level s j ms :
  flat_of j = Some ms ->
  let its := map item_of_member ms in
  dups (sel_attrs s its) = [] -> block_diags s its = [] ->
  let c := {| cattrs := firsts (sel_attrs s its); cblocks := sel_blocks s its |} in
  fst (fst (jpartial s (jroot j))) = c /\
  snd (jpartial s (jroot j)) = missing s (cattrs c) /\
  jcontent s (jroot j) = (c, missing s (cattrs c) ++ jleft s ms).
Proof.
  intros F its D BD c.
  pose proof (flat_collect _ _ F) as FC.
  destruct (jpartial_unfold s (jroot j)) as [got [bs [used [ds [EL EP]]]]].
  unfold jmembers in EL. cbn [jroot jchild jval jhidden] in EL, EP. rewrite FC in EL, EP.
  cbn [fst snd] in EL, EP.
  destruct (jloop_spec s [] ms [] [] got bs used ds EL) as [I1 [I2 [I3 I4]]].
  { intros n X. discriminate. }
  rewrite mits_nil in I1, I2, I3, I4. fold its in I1, I2, I3, I4. cbn [map app] in I1.
  assert (ds = []) as Eds.
  { apply nil_of_no_elems. intros x Hx. apply I3 in Hx. cbn [map] in Hx.
    unfold dups in D. rewrite D, BD in Hx. cbn in Hx. tauto. }
  subst ds got bs. cbn [app] in EP.
  assert (jleftovers ms used = jleft s ms) as JL.
  { apply jleftovers_jleft. intro n. rewrite (I4 n). reflexivity. }
  unfold jcontent. rewrite EP. cbn [jroot jchild jval]. rewrite FC. cbn [fst snd jhidden app].
  rewrite JL. split; [reflexivity|]. split; reflexivity.
Qed.

(* ---- one level of the native body, in general ------------------------------------------------- *)
Lemma block_under_fit {V} (bl : block V) k : nlen bl = k -> block_under bl k = ([bl], []).
Proof. intro E. unfold block_under. subst k. rewrite Z.ltb_irrefl. reflexivity. Qed.

Definition nsel {V} (s : schema) (bs : list (block V)) : list (block V) :=
  filter (fun bl => is_some (wanted (btype bl) (sblocks s))) bs.

Lemma sel_blocks_fit {V} s (bs : list (block V)) :
  (forall bl k, In bl bs -> wanted (btype bl) (sblocks s) = Some k -> nlen bl = k) ->
  sel_blocks s (map item_of_block bs) = nsel s bs /\
  block_diags s (map item_of_block bs) = [].
Proof.
  induction bs as [|bl r IH]; intro H; [split; reflexivity|].
  destruct IH as [I1 I2]. { intros b k Hb. apply H. right. exact Hb. }
  unfold sel_blocks, block_diags, nsel in *. cbn [map flat_map filter].
  rewrite sel_block_block_item, I1, I2.
  destruct (wanted (btype bl) (sblocks s)) as [k|] eqn:W; cbn [is_some].
  - rewrite (block_under_fit bl k (H bl k (or_introl eq_refl) W)). split; reflexivity.
  - split; reflexivity.
Qed.

Lemma part_attrs_find {V} sa : forall (al : list (attr V)) h out h' ds n,
  part_attrs sa al h = (out, h', ds) ->
  find_named n out = if mem n (map fst sa) && negb (mem n h) then find_named n al else None.
Proof.
  induction sa as [|[m req] r IH]; intros al h out h' ds n E.
  - cbn in E. inversion E; subst. reflexivity.
  - cbn [part_attrs] in E. cbn [map fst]. rewrite mem_cons.
    destruct (find_attr m al) as [a0|] eqn:F; [destruct (mem m h) eqn:M|].
    + destruct (part_attrs r al h) as [[o x] y] eqn:R. inversion E; subst.
      rewrite (IH _ _ _ _ _ n R).
      destruct (String.eqb n m) eqn:En; [|reflexivity].
      apply String.eqb_eq in En. subst n. rewrite M. cbn [negb]. rewrite !andb_false_r. reflexivity.
    + destruct (part_attrs r al (m :: h)) as [[o x] y] eqn:R. inversion E; subst.
      pose proof (find_attr_some _ _ _ _ F) as [F1 F2].
      unfold find_named at 1. cbn [find]. rewrite F2.
      destruct (String.eqb n m) eqn:En.
      * apply String.eqb_eq in En. subst n. rewrite M. cbn [orb negb andb]. symmetry. exact F.
      * fold (find_named n o). rewrite (IH _ _ _ _ _ n R), mem_cons, En. reflexivity.
    + destruct (part_attrs r al h) as [[o x] y] eqn:R. inversion E; subst.
      rewrite (IH _ _ _ _ _ n R).
      destruct (String.eqb n m) eqn:En; [|reflexivity].
      apply String.eqb_eq in En. subst n. cbn [orb].
      unfold find_named. unfold find_attr in F. rewrite F.
      destruct (mem m (map fst r) && negb (mem m h)); destruct (negb (mem m h)); reflexivity.
Qed.

Lemma native_level {V} s (b : nbody V) :
  nhA b = [] -> nhB b = [] -> NoDup (map aname (nattrs b)) ->
  (forall bl k, In bl (nblocks b) -> wanted (btype bl) (sblocks s) = Some k -> nlen bl = k) ->
  exists out h' d1,
    part_attrs (sattrs s) (nattrs b) [] = (out, h', d1) /\
    let c := {| cattrs := out; cblocks := nsel s (nblocks b) |} in
    let r := {| nattrs := nattrs b; nblocks := nblocks b; nhA := h'; nhB := block_names s |} in
    npartial s b = (c, r, d1) /\
    ncontent s b = (c, d1 ++ nleftovers r).
Proof.
  intros HA HB ND Hfit.
  destruct (part_attrs (sattrs s) (nattrs b) []) as [[out h'] d1] eqn:PA.
  exists out, h', d1. split; [reflexivity|]. cbn zeta.
  assert (npartial s b = ({| cattrs := out; cblocks := nsel s (nblocks b) |},
            {| nattrs := nattrs b; nblocks := nblocks b; nhA := h'; nhB := block_names s |}, d1)) as EP.
  { unfold npartial. rewrite HA, HB, PA, part_blocks_spec.
    assert (filter (fun bl : block V => negb (mem (btype bl) [])) (nblocks b) = nblocks b) as FA.
    { apply filter_all. intros; reflexivity. }
    rewrite FA. destruct (sel_blocks_fit s (nblocks b) Hfit) as [E1 E2]. rewrite E1, E2, !app_nil_r.
    reflexivity. }
  split; [exact EP|]. unfold ncontent. rewrite EP. reflexivity.
Qed.

(* ---- configurations --------------------------------------------------------------------------- *)
Notation CE := (content_equiv json_sem native_sem).

Definition jsel (s : schema) (c : cfg) : list (attr jvalue) :=
  flat_map (fun it => match it with
                      | CAttr n l => if mem n (attr_names s) then [jattr n (enc_lit l)] else []
                      | CBlock _ _ _ => [] end) c.

(* one report per item of c the schema does not name *)
Definition cleft (s : schema) (c : cfg) : list diag :=
  flat_map (fun it => match it with
                      | CAttr n _ => if named s n then [] else [(ExtraneousProp, n)]
                      | CBlock t _ _ => if named s t then [] else [(ExtraneousProp, t)] end) c.

Fixpoint cfind (n : name) (c : cfg) : option lit :=
  match c with
  | [] => None
  | CAttr n' l :: r => if String.eqb n n' then Some l else cfind n r
  | CBlock _ _ _ :: r => cfind n r
  end.

Definition mkblock (t : name) (b : list name * cfg) : block cval :=
  {| btype := t; blabels := fst b; bbody := CBody (snd b) |}.

Lemma wanted_slabels t sb :
  wanted t (map (fun p : name * nat => (fst p, Z.of_nat (snd p))) sb) = option_map Z.of_nat (slabels t sb).
Proof.
  induction sb as [|[t' k] r IH]; [reflexivity|].
  cbn [map wanted slabels fst snd]. rewrite IH. destruct (slabels t r); cbn [option_map]; [reflexivity|].
  destruct (String.eqb t t'); reflexivity.
Qed.

Lemma cattrs_of_app c1 c2 : cattrs_of (c1 ++ c2) = cattrs_of c1 ++ cattrs_of c2.
Proof. unfold cattrs_of. apply flat_map_app. Qed.
Lemma cblocks_of_app c1 c2 : cblocks_of (c1 ++ c2) = cblocks_of c1 ++ cblocks_of c2.
Proof. unfold cblocks_of. apply flat_map_app. Qed.
Lemma cattrs_of_blocks t bs : cattrs_of (blocks_of_type t bs) = [].
Proof. induction bs as [|b r IH]; [reflexivity|]. exact IH. Qed.
Lemma cblocks_of_blocks t bs : cblocks_of (blocks_of_type t bs) = map (mkblock t) bs.
Proof. induction bs as [|b r IH]; [reflexivity|]. cbn. f_equal. exact IH. Qed.
Lemma cattr_names_blocks t bs c : cattr_names (blocks_of_type t bs ++ c) = cattr_names c.
Proof. unfold cattr_names. rewrite cattrs_of_app, cattrs_of_blocks. reflexivity. Qed.
Lemma jsel_app s c1 c2 : jsel s (c1 ++ c2) = jsel s c1 ++ jsel s c2.
Proof. unfold jsel. apply flat_map_app. Qed.
Lemma jsel_blocks s t bs : jsel s (blocks_of_type t bs) = [].
Proof. induction bs as [|b r IH]; [reflexivity|]. exact IH. Qed.
Lemma cleft_app s c1 c2 : cleft s (c1 ++ c2) = cleft s c1 ++ cleft s c2.
Proof. unfold cleft. apply flat_map_app. Qed.

Lemma Forall2_map_r {A B C} (R : A -> C -> Prop) (f : B -> C) l l' :
  Forall2 (fun a b => R a (f b)) l l' -> Forall2 R l (map f l').
Proof. induction 1; cbn [map]; constructor; assumption. Qed.

Lemma nsel_app {V} s (l1 l2 : list (block V)) : nsel s (l1 ++ l2) = nsel s l1 ++ nsel s l2.
Proof. unfold nsel. apply filter_app. Qed.

Lemma nsel_group s t bs :
  nsel s (map (mkblock t) bs) = if is_some (wanted t (sblocks s)) then map (mkblock t) bs else [].
Proof.
  unfold nsel. destruct (is_some (wanted t (sblocks s))) eqn:W.
  - apply filter_all. intros x Hx. apply in_map_iff in Hx. destruct Hx as [b [E _]]. subst x. exact W.
  - apply filter_none. intros x Hx. apply in_map_iff in Hx. destruct Hx as [b [E _]]. subst x. exact W.
Qed.

(* ---- the facts about one level established by enc_props ----------------------------------------- *)
Definition BR (kid : name -> stree) (jb : block jvalue) (nb : block cval) : Prop :=
  btype jb = btype nb /\ blabels jb = blabels nb /\
  CE (kid (btype jb)) (jchild (bbody jb)) (nchild (bbody nb)).

Definition props_facts (sa : list (name * bool)) (sb : list (name * nat)) (kid : name -> stree)
                       (c : cfg) (ms : list (name * jvalue)) : Prop :=
  let s := level_schema_of sa sb in
  let its := map item_of_member ms in
  sel_attrs s its = jsel s c /\
  Forall2 (BR kid) (sel_blocks s its) (nsel s (cblocks_of c)) /\
  block_diags s its = [] /\
  (forall x, In x (jleft s ms) <-> In x (cleft s c)) /\
  (forall bl k, In bl (cblocks_of c) -> wanted (btype bl) (sblocks s) = Some k -> nlen bl = k) /\
  (forall n l, In (CAttr n l) c -> lit_ok l = true /\ mem n (block_names s) = false) /\
  (forall bl, In bl (cblocks_of c) -> mem (btype bl) (attr_names s) = false).

Definition blocks_facts (k : nat) (S : stree) (used : list name) (bs : list (list name * cfg))
                        (v : jvalue) : Prop :=
  forall t, exists jbs,
    unpack_block k v t used = (jbs, []) /\
    Forall2 (fun jb b => btype jb = t /\ blabels jb = fst b /\
                         CE S (jchild (bbody jb)) (native_of (snd b))) jbs bs /\
    Forall (fun b => List.length (fst b) = (List.length used + k)%nat) bs.

Definition labels_facts (k : nat) (S : stree) (used : list name) (bs : list (list name * cfg))
                        (ms : list (name * jvalue)) : Prop :=
  forall t,
    Forall2 (fun jb b => btype jb = t /\ blabels jb = fst b /\
                         CE S (jchild (bbody jb)) (native_of (snd b)))
            (flat_map (fun m => fst (unpack_block k (snd m) t (used ++ [fst m]))) ms) bs /\
    flat_map (fun m => snd (unpack_block k (snd m) t (used ++ [fst m]))) ms = [] /\
    Forall (fun b => List.length (fst b) = (List.length used + 1 + k)%nat) bs.

Definition elems_facts (S : stree) (cs : list cfg) (vs : list jvalue) : Prop :=
  Forall2 (fun v c => CE S (jchild v) (native_of c)) vs cs.

Lemma attr_names_level sa sb : attr_names (level_schema_of sa sb) = map fst sa.
Proof. reflexivity. Qed.
Lemma block_names_level sa sb : block_names (level_schema_of sa sb) = map fst sb.
Proof. unfold block_names, level_schema_of. cbn [sblocks]. rewrite map_map. reflexivity. Qed.
Lemma wanted_level sa sb t :
  wanted t (sblocks (level_schema_of sa sb)) = option_map Z.of_nat (slabels t sb).
Proof. apply wanted_slabels. Qed.
Lemma mem_blocks_level sa sb t :
  mem t (block_names (level_schema_of sa sb)) = is_some (slabels t sb).
Proof.
  unfold block_names. rewrite wanted_mem, wanted_level. destruct (slabels t sb); reflexivity.
Qed.

(* ---- attributes of a configuration ---------------------------------------------------------------- *)
Lemma names_jsel s c :
  map aname (jsel s c) = filter (fun n => mem n (attr_names s)) (cattr_names c).
Proof.
  unfold cattr_names. induction c as [|it r IH]; [reflexivity|].
  destruct it as [n l|t ls b]; cbn [jsel cattrs_of flat_map app] in *; [|exact IH].
  rewrite map_app. cbn [map aname filter]. fold (jsel s r). fold (cattrs_of r). rewrite IH.
  destruct (mem n (attr_names s)); reflexivity.
Qed.

Lemma find_jsel s c n :
  find_named n (jsel s c)
  = if mem n (attr_names s) then option_map (fun l => jattr n (enc_lit l)) (cfind n c) else None.
Proof.
  induction c as [|it r IH].
  - cbn. destruct (mem n (attr_names s)); reflexivity.
  - destruct it as [n' l|t ls b]; cbn [jsel flat_map cfind]; [|exact IH].
    fold (jsel s r). destruct (mem n' (attr_names s)) eqn:M'; cbn [app].
    + unfold find_named. cbn [find aname jattr]. fold (find_named n (jsel s r)).
      destruct (String.eqb n n') eqn:E.
      * apply String.eqb_eq in E. subst n'. rewrite M'. reflexivity.
      * exact IH.
    + rewrite IH. destruct (String.eqb n n') eqn:E; [|reflexivity].
      apply String.eqb_eq in E. subst n'. rewrite M'. reflexivity.
Qed.

Lemma find_cattrs c n :
  find_named n (cattrs_of c) = option_map (fun l => {| aname := n; aval := CLit l |}) (cfind n c).
Proof.
  induction c as [|it r IH]; [reflexivity|].
  destruct it as [n' l|t ls b]; cbn [cattrs_of flat_map cfind app]; [|exact IH].
  fold (cattrs_of r). unfold find_named. cbn [find aname]. fold (find_named n (cattrs_of r)).
  destruct (String.eqb n n') eqn:E; [|exact IH].
  apply String.eqb_eq in E. subst n'. reflexivity.
Qed.

Lemma cfind_In n c l : cfind n c = Some l -> In (CAttr n l) c.
Proof.
  induction c as [|it r IH]; [discriminate|].
  destruct it as [n' l'|t ls b]; cbn [cfind]; intro H.
  - destruct (String.eqb n n') eqn:E.
    + apply String.eqb_eq in E. inversion H; subst. left. reflexivity.
    + right. exact (IH H).
  - right. exact (IH H).
Qed.

Lemma In_cattr_names n c : In n (cattr_names c) <-> exists l, In (CAttr n l) c.
Proof.
  unfold cattr_names, cattrs_of. rewrite in_map_iff. split.
  - intros [a [E H]]. apply in_flat_map in H. destruct H as [it [Hit Ha]].
    destruct it as [n' l|]; [|destruct Ha]. destruct Ha as [Ha|[]]. subst a. cbn in E. subst n'.
    exists l. exact Hit.
  - intros [l H]. exists {| aname := n; aval := CLit l |}. split; [reflexivity|].
    apply in_flat_map. exists (CAttr n l). split; [exact H|left; reflexivity].
Qed.

Lemma In_cblock_types t c : In t (map btype (cblocks_of c)) <-> exists ls b, In (CBlock t ls b) c.
Proof.
  unfold cblocks_of. rewrite in_map_iff. split.
  - intros [bl [E H]]. apply in_flat_map in H. destruct H as [it [Hit Ha]].
    destruct it as [|t' ls b]; [destruct Ha|]. destruct Ha as [Ha|[]]. subst bl. cbn in E. subst t'.
    exists ls, b. exact Hit.
  - intros [ls [b H]]. exists {| btype := t; blabels := ls; bbody := CBody b |}. split; [reflexivity|].
    apply in_flat_map. exists (CBlock t ls b). split; [exact H|left; reflexivity].
Qed.

Lemma In_cleft s c x :
  In x (cleft s c) <->
  exists n, x = (ExtraneousProp, n) /\ named s n = false /\
            (In n (cattr_names c) \/ In n (map btype (cblocks_of c))).
Proof.
  unfold cleft. rewrite in_flat_map. split.
  - intros [it [Hit Hx]]. destruct it as [n l|t ls b].
    + destruct (named s n) eqn:N; [destruct Hx|]. destruct Hx as [Hx|[]]. exists n.
      split; [auto|]. split; [exact N|]. left. apply In_cattr_names. exists l. exact Hit.
    + destruct (named s t) eqn:N; [destruct Hx|]. destruct Hx as [Hx|[]]. exists t.
      split; [auto|]. split; [exact N|]. right. apply In_cblock_types. exists ls, b. exact Hit.
  - intros [n [E [N [H|H]]]]; subst x.
    + apply In_cattr_names in H. destruct H as [l H]. exists (CAttr n l). split; [exact H|].
      rewrite N. left. reflexivity.
    + apply In_cblock_types in H. destruct H as [ls [b H]]. exists (CBlock n ls b). split; [exact H|].
      rewrite N. left. reflexivity.
Qed.

(* ---- diagnostics of one level, kind by kind ----------------------------------------------------------- *)
Definition violation_agree (dj dn : list diag) : Prop :=
  (forall n, In (MissingRequired, n) dj <-> In (MissingRequired, n) dn) /\
  (forall n, In (ExtraneousProp, n) dj <-> In (UnsupportedAttr, n) dn \/ In (UnsupportedBlock, n) dn) /\
  (forall x, In x dj -> fst x = MissingRequired \/ fst x = ExtraneousProp) /\
  (forall x, In x dn -> fst x = MissingRequired \/ fst x = UnsupportedAttr \/ fst x = UnsupportedBlock).

Lemma violation_agree_nil dj dn : violation_agree dj dn -> (dj = [] <-> dn = []).
Proof.
  intros [H1 [H2 [H3 H4]]]. split; intro E; subst.
  - apply nil_of_no_elems. intros [k n] Hx. destruct (H4 _ Hx) as [K|[K|K]]; cbn in K; subst k.
    + apply H1 in Hx. destruct Hx.
    + destruct (proj2 (H2 n) (or_introl Hx)).
    + destruct (proj2 (H2 n) (or_intror Hx)).
  - apply nil_of_no_elems. intros [k n] Hx. destruct (H3 _ Hx) as [K|K]; cbn in K; subst k.
    + apply H1 in Hx. destruct Hx.
    + apply H2 in Hx. destruct Hx as [[]|[]].
Qed.

Lemma missing_iff sa sb c out h' d1 :
  NoDup (map fst sa) ->
  part_attrs sa (cattrs_of c) [] = (out, h', d1) ->
  forall x, In x (missing (level_schema_of sa sb) (jsel (level_schema_of sa sb) c)) <-> In x d1.
Proof.
  intros ND PA x. set (s := level_schema_of sa sb).
  rewrite In_missing, (part_attrs_diags _ _ _ _ _ _ _ PA ND x). cbn [sattrs s level_schema_of].
  split; intros [n [E [Hn H]]]; exists n; (split; [exact E|]); (split; [exact Hn|]).
  - intros [a [A1 [A2 _]]]. apply H. rewrite names_jsel. apply filter_In. split.
    + unfold cattr_names. rewrite <- A2. apply in_map. exact A1.
    + apply mem_In. change (In n (map fst sa)). apply in_map_iff. exists (n, true). split; [reflexivity|exact Hn].
  - intro X. rewrite names_jsel in X. apply filter_In in X. destruct X as [X _].
    unfold cattr_names in X. apply in_map_iff in X. destruct X as [a [A2 A1]].
    apply H. exists a. split; [exact A1|]. split; [exact A2|reflexivity].
Qed.

Lemma nleft_iff sa sb c out h' d1 x :
  part_attrs sa (cattrs_of c) [] = (out, h', d1) ->
  let s := level_schema_of sa sb in
  let r := {| nattrs := cattrs_of c; nblocks := cblocks_of c; nhA := h'; nhB := block_names s |} in
  In x (nleftovers r) <->
  (exists n, x = (UnsupportedAttr, n) /\ In n (cattr_names c) /\ mem n (attr_names s) = false) \/
  (exists t, x = (UnsupportedBlock, t) /\ In t (map btype (cblocks_of c)) /\ mem t (block_names s) = false).
Proof.
  intros PA s r. unfold nleftovers. cbn [nattrs nblocks nhA nhB r]. rewrite in_app_iff, !in_map_iff.
  split.
  - intros [[a [E H]]|[bl [E H]]]; apply filter_In in H; destruct H as [H1 H2]; apply negb_true_iff in H2.
    + left. exists (aname a). split; [auto|]. split; [unfold cattr_names; apply in_map; exact H1|].
      rewrite (part_attrs_hidden _ _ _ _ _ _ _ PA a H1) in H2. cbn [mem existsb orb] in H2. exact H2.
    + right. exists (btype bl). split; [auto|]. split; [apply in_map; exact H1|exact H2].
  - intros [[n [E [H1 H2]]]|[t [E [H1 H2]]]]; subst x.
    + left. unfold cattr_names in H1. apply in_map_iff in H1. destruct H1 as [a [Ea Ha]]. exists a.
      split; [rewrite Ea; reflexivity|]. apply filter_In. split; [exact Ha|]. apply negb_true_iff.
      rewrite (part_attrs_hidden _ _ _ _ _ _ _ PA a Ha). cbn [mem existsb orb]. rewrite Ea. exact H2.
    + right. apply in_map_iff in H1. destruct H1 as [bl [Eb Hb]]. exists bl.
      split; [rewrite Eb; reflexivity|]. apply filter_In. split; [exact Hb|]. apply negb_true_iff.
      rewrite Eb. exact H2.
Qed.

(* ---- the results of the four methods at one level --------------------------------------------------------- *)
Lemma level_results sa sb kid c j ms :
  level_ok sa sb -> NoDup (cattr_names c) -> flat_of j = Some ms -> props_facts sa sb kid c ms ->
  let s := level_schema_of sa sb in
  exists out h' d1,
    part_attrs sa (cattrs_of c) [] = (out, h', d1) /\
    let cj := {| cattrs := jsel s c; cblocks := sel_blocks s (map item_of_member ms) |} in
    let cn := {| cattrs := out; cblocks := nsel s (cblocks_of c) |} in
    let r := {| nattrs := cattrs_of c; nblocks := cblocks_of c; nhA := h'; nhB := block_names s |} in
    fst (fst (jpartial s (jroot j))) = cj /\
    snd (jpartial s (jroot j)) = missing s (jsel s c) /\
    jcontent s (jroot j) = (cj, missing s (jsel s c) ++ jleft s ms) /\
    npartial s (native_of c) = (cn, r, d1) /\
    ncontent s (native_of c) = (cn, d1 ++ nleftovers r).
Proof.
  intros [NDsa _] NDc F [PA1 [PB [PD [PL [PFit _]]]]] s.
  assert (NoDup (map aname (jsel s c))) as NDj by (rewrite names_jsel; apply NoDup_filter; exact NDc).
  destruct (firsts_from_nodup _ [] (jsel s c) NDj (fun a _ => eq_refl)) as [FF DD].
  fold s in PA1, PD.
  assert (dups (sel_attrs s (map item_of_member ms)) = []) as D1 by (rewrite PA1; exact DD).
  destruct (json_level s j ms F D1 PD) as [J1 [J2 J3]].
  rewrite PA1 in J1, J2, J3. unfold firsts in J1, J2, J3. rewrite FF in J1, J2, J3.
  cbn [cattrs] in J2, J3.
  destruct (native_level s (native_of c) eq_refl eq_refl NDc PFit) as [out [h' [d1 [PA [N1 N2]]]]].
  exists out, h', d1. split; [exact PA|]. cbn zeta. tauto.
Qed.

Lemma level_violation sa sb kid c j ms :
  level_ok sa sb -> NoDup (cattr_names c) -> flat_of j = Some ms -> props_facts sa sb kid c ms ->
  let s := level_schema_of sa sb in
  violation_agree (snd (jcontent s (jroot j))) (snd (ncontent s (native_of c))) /\
  violation_agree (snd (jpartial s (jroot j))) (snd (npartial s (native_of c))).
Proof.
  intros LOK NDc F PF s.
  destruct (level_results sa sb kid c j ms LOK NDc F PF) as [out [h' [d1 [PA [_ [J2 [J3 [N1 N2]]]]]]]].
  fold s in J2, J3, N1, N2. rewrite J2, J3, N1, N2. cbn [snd].
  destruct LOK as [NDsa _]. destruct PF as [_ [_ [_ [PL [_ [PAttr PBlk]]]]]]. fold s in PL, PAttr, PBlk.
  pose proof (missing_iff sa sb c out h' d1 NDsa PA) as MI. fold s in MI.
  assert (forall x, In x d1 -> fst x = MissingRequired) as K1.
  { intros x Hx. apply MI in Hx. apply In_missing in Hx. destruct Hx as [n [E _]]. subst x. reflexivity. }
  assert (forall x, In x (missing s (jsel s c)) -> fst x = MissingRequired) as K2.
  { intros x Hx. apply K1. apply MI. exact Hx. }
  assert (forall x, In x (jleft s ms) -> fst x = ExtraneousProp) as K3.
  { intros x Hx. apply PL in Hx. apply In_cleft in Hx. destruct Hx as [n [E _]]. subst x. reflexivity. }
  pose proof (fun x => nleft_iff sa sb c out h' d1 x PA) as NL. cbn zeta in NL. fold s in NL.
  set (r := {| nattrs := cattrs_of c; nblocks := cblocks_of c; nhA := h'; nhB := block_names s |}) in *.
  assert (forall n, In (ExtraneousProp, n) (jleft s ms) <->
                    In (UnsupportedAttr, n) (nleftovers r) \/ In (UnsupportedBlock, n) (nleftovers r)) as EX.
  { intro n. rewrite (PL _), In_cleft, !NL. split.
    - intros [n' [E [N [H|H]]]]; injection E as E'; subst n'.
      + left. left. exists n. split; [reflexivity|]. split; [exact H|].
        unfold named in N. apply orb_false_iff in N. tauto.
      + right. right. exists n. split; [reflexivity|]. split; [exact H|].
        unfold named in N. apply orb_false_iff in N. tauto.
    - intros [[[n' [E [H1 H2]]]|[t [E _]]]|[[n' [E _]]|[n' [E [H1 H2]]]]]; try discriminate;
        injection E as E'; subst n'; exists n; (split; [reflexivity|]).
      + split; [|left; exact H1]. unfold named. rewrite H2. cbn [orb].
        apply In_cattr_names in H1. destruct H1 as [l Hl]. exact (proj2 (PAttr _ _ Hl)).
      + split; [|right; exact H1]. unfold named. rewrite H2, orb_false_r.
        apply in_map_iff in H1. destruct H1 as [bl [Eb Hb]]. rewrite <- Eb. exact (PBlk _ Hb). }
  split.
  - (* Content *)
    split; [|split; [|split]].
    + intro n. rewrite !in_app_iff, (MI _). split; intros [H|H]; try (left; exact H).
      * apply K3 in H. discriminate.
      * apply NL in H. destruct H as [[n' [E _]]|[t [E _]]]; discriminate.
    + intro n. rewrite !in_app_iff. split.
      * intros [H|H]; [apply K2 in H; discriminate|]. apply EX in H. tauto.
      * intros [[H|H]|[H|H]]; try (apply K1 in H; discriminate); right; apply EX; tauto.
    + intros x Hx. apply in_app_iff in Hx. destruct Hx as [Hx|Hx]; [left; exact (K2 _ Hx)|right; exact (K3 _ Hx)].
    + intros x Hx. apply in_app_iff in Hx. destruct Hx as [Hx|Hx]; [left; exact (K1 _ Hx)|].
      apply NL in Hx. destruct Hx as [[n [E _]]|[t [E _]]]; subst x; cbn; tauto.
  - (* PartialContent *)
    split; [|split; [|split]].
    + intro n. apply MI.
    + intro n. split.
      * intro H. apply K2 in H. discriminate.
      * intros [H|H]; apply K1 in H; discriminate.
    + intros x Hx. left. exact (K2 _ Hx).
    + intros x Hx. left. exact (K1 _ Hx).
Qed.

Lemma node_equiv sa sb kid c j ms :
  level_ok sa sb -> NoDup (cattr_names c) -> flat_of j = Some ms -> props_facts sa sb kid c ms ->
  CE (SNode sa sb kid) (jroot j) (native_of c).
Proof.
  intros LOK NDc F PF.
  destruct (level_violation sa sb kid c j ms LOK NDc F PF) as [VC VP].
  destruct (level_results sa sb kid c j ms LOK NDc F PF) as [out [h' [d1 [PA [J1 [J2 [J3 [N1 N2]]]]]]]].
  destruct PF as [_ [PB [_ [_ [_ [PAttr _]]]]]].
  set (s := level_schema_of sa sb) in *.
  apply CE_node; cbn [bs_impl json_sem native_sem b_content b_partial json_impl native_impl bs_child bs_eval].
  - (* attributes *)
    fold s. rewrite J3, N2. cbn [fst cattrs]. intro n.
    rewrite find_jsel, (part_attrs_find sa (cattrs_of c) [] out h' d1 n PA), find_cattrs.
    cbn [mem existsb negb]. rewrite andb_true_r. change (attr_names s) with (map fst sa).
    destruct (mem n (map fst sa)); [|reflexivity].
    destruct (cfind n c) as [l|] eqn:CF; [|reflexivity].
    unfold jattr. cbn [option_map aval bs_eval json_sem native_sem nexpr_val].
    apply cfind_In in CF. destruct (PAttr _ _ CF) as [OK _].
    rewrite (jexpr_enc_lit l OK). reflexivity.
  - (* blocks *)
    fold s. rewrite J3, N2. cbn [fst cblocks]. exact PB.
  - fold s. rewrite J3. exact J1.
  - fold s. rewrite N1, N2. reflexivity.
  - fold s. apply violation_agree_nil. exact VC.
  - fold s. apply violation_agree_nil. exact VP.
Qed.

(* ---- JustAttributes bodies ---------------------------------------------------------------------------------- *)
Definition jall (c : cfg) : list (attr jvalue) :=
  flat_map (fun it => match it with CAttr n l => [jattr n (enc_lit l)] | CBlock _ _ _ => [] end) c.

Lemma enc_just_facts c ms : enc_just c ms ->
  cblocks_of c = [] /\
  (forall n l, In (CAttr n l) c -> lit_ok l = true) /\
  forall got, (forall n, In n (cattr_names c) -> ~ In n (map aname got)) -> NoDup (cattr_names c) ->
    jja_loop [] ms got = (got ++ jall c, []).
Proof.
  induction 1 as [|c ms v H [I1 [I2 I3]]|n l c ms Hn OK H [I1 [I2 I3]]].
  - split; [reflexivity|]. split; [intros n l []|]. intros got _ _. cbn. rewrite app_nil_r. reflexivity.
  - split; [exact I1|]. split; [exact I2|]. intros got Hg ND. cbn [jja_loop].
    rewrite String.eqb_refl. apply I3; assumption.
  - split; [exact I1|]. split.
    + intros n' l' [E|Hin]; [inversion E; subst; exact OK|exact (I2 _ _ Hin)].
    + intros got Hg ND. cbn [jja_loop]. apply String.eqb_neq in Hn. rewrite Hn. cbn [mem existsb].
      assert (mem n (map aname got) = false) as M.
      { apply mem_nIn. apply Hg. left. reflexivity. }
      rewrite M. cbn [cattr_names cattrs_of flat_map app map aname] in ND. fold (cattrs_of c) in ND.
      inversion ND as [|? ? Hn' ND']; subst.
      rewrite I3.
      * cbn [jall flat_map app]. rewrite <- app_assoc. reflexivity.
      * intros n' Hn'' X. rewrite map_app, in_app_iff in X. destruct X as [X|[X|[]]].
        -- apply (Hg n'); [right; exact Hn''|exact X].
        -- cbn in X. subst n'. contradiction.
      * exact ND'.
Qed.

Lemma just_equiv c ms : NoDup (cattr_names c) -> enc_just c ms -> CE SJust (jroot (JObj ms)) (native_of c).
Proof.
  intros ND H. destruct (enc_just_facts c ms H) as [NB [OK JJ]].
  assert (jjust_attrs (jroot (JObj ms)) = (jall c, [])) as EJ.
  { unfold jjust_attrs. cbn [jroot jchild jval jhidden]. rewrite (JJ [] (fun _ _ X => X) ND). reflexivity. }
  assert (njust_attrs (native_of c) = (cattrs_of c, [])) as EN.
  { unfold njust_attrs, vis_attrs, vis_blocks. cbn [native_of nattrs nblocks nhA nhB]. rewrite NB.
    cbn [filter]. f_equal. apply filter_all. intros; reflexivity. }
  apply CE_just; cbn [bs_impl json_sem native_sem b_just_attrs json_impl native_impl]; rewrite EJ, EN; cbn [fst snd].
  - unfold attr_lists_equiv. cbn [bs_eval json_sem native_sem]. clear -OK.
    induction c as [|it r IH]; [reflexivity|].
    destruct it as [n l|t ls b]; cbn [jall cattrs_of flat_map app map].
    + fold (jall r). fold (cattrs_of r). cbn [aname aval jattr nexpr_val].
      rewrite (jexpr_enc_lit l (OK n l (or_introl eq_refl))). f_equal.
      apply IH. intros n' l' Hin. apply (OK n' l'). right. exact Hin.
    + apply IH. intros n' l' Hin. apply (OK n' l'). right. exact Hin.
  - tauto.
Qed.

(* ---- one property at the head of a body ---------------------------------------------------------------------- *)
Lemma sel_cons s n v ms :
  sel_attrs s (map item_of_member ((n, v) :: ms))
  = (if mem n (attr_names s) then [jattr n v] else []) ++ sel_attrs s (map item_of_member ms) /\
  sel_blocks s (map item_of_member ((n, v) :: ms))
  = (if mem n (attr_names s) then []
     else match wanted n (sblocks s) with
          | Some k => fst (unpack_block (Z.to_nat k) v n [])
          | None => [] end) ++ sel_blocks s (map item_of_member ms) /\
  block_diags s (map item_of_member ((n, v) :: ms))
  = (if mem n (attr_names s) then []
     else match wanted n (sblocks s) with
          | Some k => snd (unpack_block (Z.to_nat k) v n [])
          | None => [] end) ++ block_diags s (map item_of_member ms).
Proof.
  unfold sel_attrs, sel_blocks, block_diags. cbn [map flat_map].
  rewrite sel_attr_member, sel_block_member. cbn [fst snd].
  destruct (mem n (attr_names s)); [split; [|split]; reflexivity|].
  destruct (wanted n (sblocks s)); split; try split; reflexivity.
Qed.

Lemma jleft_cons s n v ms :
  jleft s ((n, v) :: ms)
  = (if String.eqb n comment_name then [] else if named s n then [] else [(ExtraneousProp, n)])
    ++ jleft s ms.
Proof. reflexivity. Qed.

Lemma Forall2_weaken {A B} (R R' : A -> B -> Prop) l l' :
  (forall a b, R a b -> R' a b) -> Forall2 R l l' -> Forall2 R' l l'.
Proof. intro H. induction 1; constructor; auto. Qed.

Lemma Forall2_app_intro {A B} (R : A -> B -> Prop) l1 l2 l1' l2' :
  Forall2 R l1 l1' -> Forall2 R l2 l2' -> Forall2 R (l1 ++ l2) (l1' ++ l2').
Proof. induction 1; cbn [app]; [auto|]. intro H2. constructor; auto. Qed.

(* ---- the mutual induction on the derivation -------------------------------------------------------------------- *)
Definition P_props sa sb kid c ms : Prop :=
  ~ In comment_name (map fst sa) -> ~ In comment_name (map fst sb) -> props_facts sa sb kid c ms.

Lemma comment_not_attr sa sb :
  ~ In comment_name (map fst sa) -> mem comment_name (attr_names (level_schema_of sa sb)) = false.
Proof. intro H. apply mem_nIn. exact H. Qed.
Lemma comment_not_block sa sb :
  ~ In comment_name (map fst sb) -> wanted comment_name (sblocks (level_schema_of sa sb)) = None.
Proof.
  intro H. apply wanted_none. fold (block_names (level_schema_of sa sb)). rewrite block_names_level. exact H.
Qed.

Lemma case_nil sa sb kid : P_props sa sb kid [] [].
Proof.
  intros _ _. unfold props_facts. cbn.
  repeat split; try constructor; try tauto; intros; try contradiction.
Qed.

Lemma case_comment sa sb kid c ms v :
  P_props sa sb kid c ms -> P_props sa sb kid c ((comment_name, v) :: ms).
Proof.
  intros IH Ha Hb. destruct (IH Ha Hb) as [F1 [F2 [F3 [F4 F5]]]].
  unfold props_facts. destruct (sel_cons (level_schema_of sa sb) comment_name v ms) as [E1 [E2 E3]].
  rewrite E1, E2, E3, jleft_cons, (comment_not_attr sa sb Ha), (comment_not_block sa sb Hb).
  rewrite String.eqb_refl. cbn [app]. tauto.
Qed.

Lemma case_attr sa sb kid n l c ms :
  n <> comment_name -> slabels n sb = None -> lit_ok l = true ->
  P_props sa sb kid c ms -> P_props sa sb kid (CAttr n l :: c) ((n, enc_lit l) :: ms).
Proof.
  intros Hn SL OK IH Ha Hb. destruct (IH Ha Hb) as [F1 [F2 [F3 [F4 [F5 [F6 F7]]]]]].
  set (s := level_schema_of sa sb) in *.
  assert (wanted n (sblocks s) = None) as W by (unfold s; rewrite wanted_level, SL; reflexivity).
  assert (mem n (block_names s) = false) as MB by (unfold s; rewrite mem_blocks_level, SL; reflexivity).
  unfold props_facts. fold s. destruct (sel_cons s n (enc_lit l) ms) as [E1 [E2 E3]].
  rewrite E1, E2, E3, jleft_cons, W. apply String.eqb_neq in Hn. rewrite Hn.
  split; [|split; [|split; [|split; [|split; [|split]]]]].
  - rewrite F1. reflexivity.
  - destruct (mem n (attr_names s)); exact F2.
  - destruct (mem n (attr_names s)); exact F3.
  - intro x. cbn [cleft flat_map]. fold (cleft s c). rewrite !in_app_iff, (F4 x). reflexivity.
  - exact F5.
  - intros n' l' [E|Hin]; [inversion E; subst; tauto|exact (F6 _ _ Hin)].
  - exact F7.
Qed.

Lemma case_blocks sa sb kid t k bs v c ms :
  t <> comment_name -> ~ In t (map fst sa) ->
  (slabels t sb = Some k \/ (slabels t sb = None /\ bs <> [])) ->
  blocks_facts k (kid t) [] bs v ->
  P_props sa sb kid c ms -> P_props sa sb kid (blocks_of_type t bs ++ c) ((t, v) :: ms).
Proof.
  intros Ht Hta SL BF IH Ha Hb. destruct (IH Ha Hb) as [F1 [F2 [F3 [F4 [F5 [F6 F7]]]]]].
  set (s := level_schema_of sa sb) in *.
  assert (mem t (attr_names s) = false) as MA by (apply mem_nIn; exact Hta).
  destruct (BF t) as [jbs [UB [FB FL]]].
  unfold props_facts. fold s. destruct (sel_cons s t v ms) as [E1 [E2 E3]].
  rewrite E1, E2, E3, jleft_cons, MA. apply String.eqb_neq in Ht. rewrite Ht.
  rewrite jsel_app, jsel_blocks, cblocks_of_app, cblocks_of_blocks, nsel_app, nsel_group, cleft_app.
  assert (wanted t (sblocks s) = option_map Z.of_nat (slabels t sb)) as W by apply wanted_level.
  assert (named s t = is_some (slabels t sb)) as NM.
  { unfold named. rewrite MA. cbn [orb]. apply mem_blocks_level. }
  assert (forall bl, In bl (map (mkblock t) bs) -> btype bl = t) as BT.
  { intros bl Hbl. apply in_map_iff in Hbl. destruct Hbl as [b [E _]]. subst bl. reflexivity. }
  cbn [app].
  split; [exact F1|]. split; [|split; [|split; [|split; [|split]]]].
  - (* blocks *)
    rewrite W. destruct SL as [SL|[SL NE]]; rewrite SL; cbn [option_map is_some].
    + rewrite Nat2Z.id, UB. cbn [fst]. apply Forall2_app_intro; [|exact F2].
      apply Forall2_map_r. eapply Forall2_weaken; [|exact FB].
      intros jb b [B1 [B2 B3]]. unfold BR, mkblock. cbn [btype blabels bbody nchild]. rewrite B1. tauto.
    + exact F2.
  - (* no block diagnostics *)
    rewrite W. destruct SL as [SL|[SL NE]]; rewrite SL; cbn [option_map].
    + rewrite Nat2Z.id, UB. exact F3.
    + exact F3.
  - (* leftovers *)
    intro x. rewrite !in_app_iff, (F4 x), NM.
    assert (In x (if is_some (slabels t sb) then [] else [(ExtraneousProp, t)])
            <-> In x (cleft s (blocks_of_type t bs))) as X; [|tauto].
    unfold cleft, blocks_of_type. rewrite flat_map_concat_map, map_map, <- flat_map_concat_map.
    rewrite NM. destruct SL as [SL|[SL NE]]; rewrite SL; cbn [is_some].
    + split; [intros []|]. intro H. apply in_flat_map in H. destruct H as [b [_ []]].
    + split.
      * intro H. destruct bs as [|b r]; [contradiction|]. cbn [flat_map]. apply in_app_iff. left. exact H.
      * intro H. apply in_flat_map in H. destruct H as [b [_ H]]. exact H.
  - (* label counts fit *)
    intros bl k' Hbl Wk. apply in_app_iff in Hbl. destruct Hbl as [Hbl|Hbl]; [|exact (F5 _ _ Hbl Wk)].
    rewrite (BT _ Hbl), W in Wk. apply in_map_iff in Hbl. destruct Hbl as [b [E Hb']]. subst bl.
    destruct SL as [SL|[SL NE]]; rewrite SL in Wk; [|discriminate]. cbn in Wk. inversion Wk; subst k'.
    rewrite Forall_forall in FL. unfold nlen, mkblock. cbn [blabels]. rewrite (FL b Hb'). reflexivity.
  - intros n l Hin. apply in_app_iff in Hin. destruct Hin as [Hin|Hin]; [|exact (F6 _ _ Hin)].
    unfold blocks_of_type in Hin. apply in_map_iff in Hin. destruct Hin as [b [E _]]. discriminate.
  - intros bl Hbl. apply in_app_iff in Hbl. destruct Hbl as [Hbl|Hbl]; [|exact (F7 _ Hbl)].
    rewrite (BT _ Hbl). exact MA.
Qed.

Theorem enc_facts :
  (forall S c j, json_encodes S c j -> CE S (jroot j) (native_of c)) /\
  (forall sa sb kid c ms, enc_props sa sb kid c ms -> P_props sa sb kid c ms) /\
  (forall k S used bs v, enc_blocks k S used bs v -> blocks_facts k S used bs v) /\
  (forall k S used bs ms, enc_labels k S used bs ms -> labels_facts k S used bs ms) /\
  (forall S cs vs, enc_elems S cs vs -> elems_facts S cs vs).
Proof.
  apply enc_mutind.
  - (* EB_node *)
    intros sa sb kid c j ms LOK ND F _ IH. apply (node_equiv sa sb kid c j ms LOK ND F).
    destruct LOK as [_ [Ha Hb]]. exact (IH Ha Hb).
  - (* EB_just *)
    intros c ms ND H. exact (just_equiv c ms ND H).
  - exact case_nil.
  - intros sa sb kid c ms v _ IH. exact (case_comment sa sb kid c ms v IH).
  - intros sa sb kid n l c ms Hn SL OK _ IH. exact (case_attr sa sb kid n l c ms Hn SL OK IH).
  - intros sa sb kid t k bs v c ms Ht Hta SL _ BF _ IH.
    exact (case_blocks sa sb kid t k bs v c ms Ht Hta SL BF IH).
  - (* EK_null *)
    intros S used t. exists []. cbn. repeat split; constructor.
  - (* EK_one *)
    intros S used c ms _ IH t. exists [mk_block t used (JObj ms)]. cbn [unpack_block].
    split; [reflexivity|]. split.
    + constructor; [|constructor]. cbn. split; [reflexivity|]. split; [reflexivity|exact IH].
    + constructor; [|constructor]. cbn. lia.
  - (* EK_arr *)
    intros S used cs vs _ IH t. exists (map (fun av => mk_block t used av) vs). cbn [unpack_block].
    split; [reflexivity|]. split.
    + induction IH as [|v c vs' cs' H _ IH']; cbn [map]; constructor; [|exact IH'].
      cbn. split; [reflexivity|]. split; [reflexivity|exact H].
    + apply Forall_forall. intros b Hb. apply in_map_iff in Hb. destruct Hb as [c [E _]]. subst b.
      cbn. lia.
  - (* EK_level *)
    intros k S used bs v ms F NE _ IH t. destruct (IH t) as [I1 [I2 I3]].
    exists (flat_map (fun m => fst (unpack_block k (snd m) t (used ++ [fst m]))) ms).
    cbn [unpack_block]. rewrite (flat_collect _ _ F). destruct ms as [|m ms']; [contradiction|].
    rewrite I2. cbn [app]. split; [reflexivity|]. split; [exact I1|].
    eapply Forall_impl; [|exact I3]. intros b Hb. cbn beta in Hb. lia.
  - (* EL_nil *)
    intros k S used t. cbn. repeat split; constructor.
  - (* EL_cons *)
    intros k S used l v g bs ms _ IHb _ IHl t. destruct (IHb t) as [jbs [U [FB FL]]].
    destruct (IHl t) as [I1 [I2 I3]]. cbn [flat_map fst snd]. rewrite U. cbn [fst snd]. rewrite I2.
    split; [apply Forall2_app_intro; assumption|]. split; [reflexivity|].
    apply Forall_app. split; [|exact I3].
    eapply Forall_impl; [|exact FL]. intros b Hb. cbn beta in Hb. rewrite app_length in Hb. cbn in Hb. lia.
  - (* EE_nil *)
    intro S. constructor.
  - (* EE_cons *)
    intros S c v cs vs _ IH _ IHs. constructor; assumption.
Qed.

(* ==== json_native_content_equiv ==================================================================== *)
Theorem json_native_content_equiv S c j :
  json_encodes S c j -> content_equiv json_sem native_sem S (jroot j) (native_of c).
Proof. exact (proj1 enc_facts S c j). Qed.

(* ==== schema_violation_iff ========================================================================= *)
(* Under the level schema of S, kind by kind: a required attribute is missing
   in JSON iff it is missing natively; JSON reports an unknown property name
   iff the native body reports an unknown argument or block type of that name;
   nothing else is reported on either side (no label-count diagnostics, no
   "Incorrect JSON value type", no duplicates). *)
Theorem schema_violation_iff_partial sa sb kid c j :
  json_encodes (SNode sa sb kid) c j ->
  let s := level_schema_of sa sb in
  violation_agree (snd (jcontent s (jroot j))) (snd (ncontent s (native_of c))) /\
  violation_agree (snd (jpartial s (jroot j))) (snd (npartial s (native_of c))).
Proof.
  intro H. inversion H as [sa' sb' kid' c' j' ms LOK ND F EP|]; subst.
  apply (level_violation sa sb kid c j ms LOK ND F).
  destruct LOK as [_ [Ha Hb]]. exact (proj1 (proj2 enc_facts) sa sb kid c ms EP Ha Hb).
Qed.

Corollary schema_violation_errorness sa sb kid c j :
  json_encodes (SNode sa sb kid) c j ->
  let s := level_schema_of sa sb in
  (snd (jcontent s (jroot j)) = [] <-> snd (ncontent s (native_of c)) = []) /\
  (snd (jpartial s (jroot j)) = [] <-> snd (npartial s (native_of c)) = []).
Proof.
  intro H. destruct (schema_violation_iff_partial sa sb kid c j H) as [V1 V2].
  split; apply violation_agree_nil; assumption.
Qed.

(* The FULL statement — error-ness agrees under EVERY schema, not only the one
   the encoding was made for — is false, inherently: JSON needs the schema to
   tell labels from nested bodies and blocks from attributes. *)
Definition schema_violation_iff : Prop :=
  forall sa sb kid c j (s : schema),
    json_encodes (SNode sa sb kid) c j ->
    (snd (jcontent s (jroot j)) = [] <-> snd (ncontent s (native_of c)) = []).

Definition leafS : stree := SNode [] [] (fun _ => SJust).
Open Scope string_scope.
(* native:  b { c {} }      JSON:  {"b": {"c": {}}}   — encoded for b with NO label *)
Definition lm_S : stree :=
  SNode [] [("b", O)] (fun _ => SNode [] [("c", O)] (fun _ => leafS)).
Definition lm_cfg : cfg := [CBlock "b" [] [CBlock "c" [] []]].
Definition lm_json : jvalue := JObj [("b", JObj [("c", JObj [])])].
(* read with a schema asking for ONE label on b *)
Definition lm_schema : schema := {| sattrs := []; sblocks := [("b", 1)] |}.
Close Scope string_scope.

Lemma lm_encodes : json_encodes lm_S lm_cfg lm_json.
Proof.
  unfold lm_S, lm_cfg, lm_json.
  eapply EB_node; [| |reflexivity|].
  - split; [constructor|]. split; intro X; cbn in X; [tauto|]. destruct X as [X|[]]. discriminate.
  - constructor.
  - apply (EP_blocks _ _ _ "b"%string O [([], [CBlock "c"%string [] []])] _ [] []).
    + discriminate.
    + intros [].
    + left. reflexivity.
    + apply EK_one. eapply EB_node; [| |reflexivity|].
      * split; [constructor|]. split; intro X; cbn in X; [tauto|]. destruct X as [X|[]]. discriminate.
      * constructor.
      * apply (EP_blocks _ _ _ "c"%string O [([], [])] _ [] []).
        -- discriminate.
        -- intros [].
        -- left. reflexivity.
        -- apply EK_one. eapply EB_node; [| |reflexivity|apply EP_nil].
           ++ split; [constructor|]. split; intros [].
           ++ constructor.
        -- apply EP_nil.
    + apply EP_nil.
Qed.

(* JSON takes "c" for the label: one block b "c" with an empty body, no
   diagnostic; the native body reports "Missing name for b" *)
Theorem schema_violation_iff_refuted : ~ schema_violation_iff.
Proof.
  intro H. specialize (H _ _ _ _ _ lm_schema lm_encodes).
  assert (snd (jcontent lm_schema (jroot lm_json)) = []) as E by reflexivity.
  apply H in E. vm_compute in E. discriminate.
Qed.

(* ---- what json_encodes excludes, and why (witnesses) ------------------------------------------------------- *)
Open Scope string_scope.
(* kind confusion: the configuration has a block x, the schema asks for an
   attribute x: JSON hands out the attribute x = {} without complaint, the
   native body reports the unsupported block *)
Example kind_confusion_outside :
  let c := [CBlock "x" [] []] in
  let j := JObj [("x", JObj [])] in
  let s := {| sattrs := [("x", false)]; sblocks := [] |} in
  json_encodes (SNode [] [("x", O)] (fun _ => leafS)) c j /\
  jcontent s (jroot j) = ({| cattrs := [jattr "x" (JObj [])]; cblocks := [] |}, []) /\
  ncontent s (native_of c)
  = ({| cattrs := []; cblocks := [] |}, [(UnsupportedBlock, "x")]).
Proof.
  cbn zeta. split; [|split; reflexivity].
  eapply EB_node; [| |reflexivity|].
  - split; [constructor|]. split; intro X; cbn in X; [tauto|]. destruct X as [X|[]]. discriminate.
  - constructor.
  - apply (EP_blocks _ _ _ "x" O [([], [])] _ [] []).
    + discriminate.
    + intros [].
    + left. reflexivity.
    + apply EK_one. eapply EB_node; [| |reflexivity|apply EP_nil].
      * split; [constructor|]. split; intros [].
      * constructor.
    + apply EP_nil.
Qed.

(* null (or {} or []) where a label level is expected is an error in JSON
   ("Missing block label"), so "no blocks" of a labelled type must be written
   with at least one label property (or by omitting the property) *)
Example null_at_label_level_is_an_error :
  unpack_block 1 JNull "t" [] = ([], [(MissingBlockLabel, "t")]) /\
  unpack_block 1 (JObj []) "t" [] = ([], [(MissingBlockLabel, "t")]) /\
  unpack_block 1 (JObj [("l", JNull)]) "t" [] = ([], []).
Proof. repeat split; reflexivity. Qed.

(* an empty run of a block type the schema does not name would be reported by
   JSON only *)
Example unknown_empty_run_outside :
  let s := empty_schema in
  snd (jcontent s (jroot (JObj [("zz", JNull)]))) = [(ExtraneousProp, "zz")] /\
  snd (ncontent s (native_of [])) = [].
Proof. split; reflexivity. Qed.

(* duplicate keys inside an object VALUE: an error in JSON (first one kept),
   last one wins silently in the native syntax *)
Example duplicate_object_key_outside :
  let l := LObj [("k", LLeaf 4002); ("k", LLeaf 8002)] in
  lit_ok l = false /\
  jexpr_val (enc_lit l) = (VObj [(bytes_of "k", leaf_val 4002)], true) /\
  lit_val l = VObj [(bytes_of "k", leaf_val 8002)].
Proof. repeat split; reflexivity. Qed.
Close Scope string_scope.

(* ==== soundness of the decision procedure ============================================================ *)
Lemma is_enc_lit_sound : forall l v, is_enc_lit l v = true -> v = enc_lit l.
Proof.
  induction l as [s|t| |xs IH|ms IH] using lit_ind'; intros v H; destruct v; cbn in H; try discriminate.
  - apply String.eqb_eq in H. subst. reflexivity.
  - apply Z.eqb_eq in H. subst. reflexivity.
  - reflexivity.
  - cbn [enc_lit]. f_equal. revert elems H. induction IH as [|x r Hx _ IHr]; intros ys H; destruct ys as [|y ys']; try discriminate.
    + reflexivity.
    + apply andb_true_iff in H. destruct H as [H1 H2]. cbn [map]. f_equal; [exact (Hx _ H1)|exact (IHr _ H2)].
  - cbn [enc_lit]. f_equal. revert members H. induction IH as [|[k x] r Hx _ IHr]; intros ys H; destruct ys as [|[k' y] ys']; try discriminate.
    + reflexivity.
    + apply andb_true_iff in H. destruct H as [H12 H3]. apply andb_true_iff in H12. destruct H12 as [H1 H2].
      apply String.eqb_eq in H1. subst k'. cbn [map fst snd]. f_equal; [|exact (IHr _ H3)].
      cbn [snd] in Hx. rewrite (Hx _ H2). reflexivity.
Qed.

Lemma names_eqb_eq a b : names_eqb a b = true -> a = b.
Proof. apply list_eqb_eq. intros x y. apply String.eqb_eq. Qed.

Lemma chk_just_sound : forall ms c, chk_just c ms = true -> enc_just c ms.
Proof.
  induction ms as [|[n v] r IH]; intros c H; cbn [chk_just] in H.
  - destruct c; [constructor|discriminate].
  - destruct (String.eqb n comment_name) eqn:En.
    + apply String.eqb_eq in En. subst n. apply EJ_comment. exact (IH _ H).
    + destruct c as [|[n' l|] c']; try discriminate.
      apply andb_true_iff in H. destruct H as [H123 H4]. apply andb_true_iff in H123. destruct H123 as [H12 H3].
      apply andb_true_iff in H12. destruct H12 as [H1 H2]. apply String.eqb_eq in H1. subst n'.
      rewrite (is_enc_lit_sound _ _ H3). apply EJ_attr; [apply String.eqb_neq; exact En|exact H2|exact (IH _ H4)].
Qed.

Lemma blocks_of_type_app t a b : blocks_of_type t (a ++ b) = blocks_of_type t a ++ blocks_of_type t b.
Proof. apply map_app. Qed.

Section CheckerSound.
Variables (S' : stree) (cb : cfg -> jvalue -> bool).
Hypothesis cb_sound : forall c v, cb c v = true -> json_encodes S' c v.

Lemma chk_one_sound t used v c c' :
  chk_one cb t used v c = Some c' ->
  exists body, c = CBlock t used body :: c' /\ json_encodes S' body v.
Proof.
  unfold chk_one. destruct c as [|[|t' ls body] r]; try discriminate.
  destruct (String.eqb t t' && names_eqb ls used && cb body v) eqn:E; [|discriminate].
  intro H. inversion H; subst. apply andb_true_iff in E. destruct E as [E12 E3].
  apply andb_true_iff in E12. destruct E12 as [E1 E2]. apply String.eqb_eq in E1. apply names_eqb_eq in E2.
  subst. exists body. split; [reflexivity|exact (cb_sound _ _ E3)].
Qed.

Lemma chk_elems_sound t used : forall vs c c',
  chk_elems cb t used vs c = Some c' ->
  exists cs, c = blocks_of_type t (map (fun x => (used, x)) cs) ++ c' /\ enc_elems S' cs vs.
Proof.
  induction vs as [|v r IH]; intros c c' H; cbn [chk_elems] in H.
  - inversion H; subst. exists []. split; [reflexivity|constructor].
  - destruct (chk_one cb t used v c) as [c1|] eqn:E1; [|discriminate].
    destruct (chk_one_sound _ _ _ _ _ E1) as [body [Ec Hb]]. destruct (IH _ _ H) as [cs [Ec1 He]].
    exists (body :: cs). split; [|constructor; assumption]. subst c c1. reflexivity.
Qed.

Lemma chk_blocks_sound t : forall k used v c c',
  chk_blocks cb k t used v c = Some c' ->
  exists bs, c = blocks_of_type t bs ++ c' /\ enc_blocks k S' used bs v.
Proof.
  induction k as [|k IH]; intros used v c c' H.
  - cbn [chk_blocks] in H. destruct v; try discriminate.
    + destruct (chk_one_sound _ _ _ _ _ H) as [body [Ec Hb]]. exists [(used, body)].
      split; [exact Ec|]. apply EK_one. exact Hb.
    + destruct (chk_elems_sound _ _ _ _ _ H) as [cs [Ec He]]. exists (map (fun x => (used, x)) cs).
      split; [exact Ec|]. apply EK_arr. exact He.
    + inversion H; subst. exists []. split; [reflexivity|apply EK_null].
  - cbn [chk_blocks] in H. destruct (flat_of v) as [ms|] eqn:F; [|discriminate].
    destruct ms as [|[l0 x0] ms0]; [discriminate|].
    destruct (chk_blocks cb k t (used ++ [l0]) x0 c) as [c0|] eqn:E0; [|discriminate].
    destruct (IH _ _ _ _ E0) as [g0 [Ec0 Hg0]].
    assert (exists bs, c0 = blocks_of_type t bs ++ c' /\ enc_labels k S' used bs ms0) as X.
    { clear F E0 Ec0 Hg0. revert c0 c' H. induction ms0 as [|[l x] r IHr]; intros c0 c' H.
      - inversion H; subst. exists []. split; [reflexivity|constructor].
      - destruct (chk_blocks cb k t (used ++ [l]) x c0) as [c1|] eqn:E1; [|discriminate].
        destruct (IH _ _ _ _ E1) as [g [Ec Hg]]. destruct (IHr _ _ H) as [bs [Ec1 Hl]].
        exists (g ++ bs). split; [|constructor; assumption].
        subst c0 c1. rewrite blocks_of_type_app, <- app_assoc. reflexivity. }
    destruct X as [bs [Ec Hl]]. exists (g0 ++ bs). split.
    + subst c c0. rewrite blocks_of_type_app, <- app_assoc. reflexivity.
    + eapply EK_level; [exact F|discriminate|]. constructor; assumption.
Qed.
End CheckerSound.

Lemma chk_props_sound sa sb kid kidchk :
  (forall t c v, kidchk t c v = true -> json_encodes (kid t) c v) ->
  forall ms c, chk_props sa sb kidchk c ms = true -> enc_props sa sb kid c ms.
Proof.
  intros KS. induction ms as [|[n v] r IH]; intros c H; cbn [chk_props] in H.
  - destruct c; [constructor|discriminate].
  - destruct (String.eqb n comment_name) eqn:En.
    { apply String.eqb_eq in En. subst n. apply EP_comment. exact (IH _ H). }
    apply String.eqb_neq in En.
    destruct (slabels n sb) as [k|] eqn:SL.
    + apply andb_true_iff in H. destruct H as [H1 H2]. apply negb_true_iff, mem_nIn in H1.
      destruct (chk_blocks (kidchk n) k n [] v c) as [c'|] eqn:CB; [|discriminate].
      destruct (chk_blocks_sound (kid n) (kidchk n) (KS n) n k [] v c c' CB) as [bs [Ec Hb]].
      subst c. apply (EP_blocks sa sb kid n k bs v c' r En H1); [left; exact SL|exact Hb|exact (IH _ H2)].
    + destruct c as [|[n' l|t' ls body] c0]; [discriminate| |].
      * apply andb_true_iff in H. destruct H as [H123 H4]. apply andb_true_iff in H123. destruct H123 as [H12 H3].
        apply andb_true_iff in H12. destruct H12 as [H1 H2]. apply String.eqb_eq in H1. subst n'.
        rewrite (is_enc_lit_sound _ _ H3). apply EP_attr; [exact En|exact SL|exact H2|exact (IH _ H4)].
      * apply andb_true_iff in H. destruct H as [H1 H2]. apply negb_true_iff, mem_nIn in H1.
        destruct (head_labels n (CBlock t' ls body :: c0)) as [k|] eqn:HL; [|discriminate].
        destruct (chk_blocks (kidchk n) k n [] v (CBlock t' ls body :: c0)) as [c'|] eqn:CB; [|discriminate].
        apply andb_true_iff in H2. destruct H2 as [H2 H3].
        destruct (chk_blocks_sound (kid n) (kidchk n) (KS n) n k [] v _ c' CB) as [bs [Ec Hb]].
        rewrite Ec. apply (EP_blocks sa sb kid n k bs v c' r En H1); [|exact Hb|exact (IH _ H3)].
        right. split; [exact SL|]. intro X. subst bs. cbn [blocks_of_type map app] in Ec.
        rewrite Ec, Nat.eqb_refl in H2. discriminate.
Qed.

Theorem json_encodes_b_sound : forall S c j, json_encodes_b S c j = true -> json_encodes S c j.
Proof.
  induction S as [|sa sb kid IH]; intros c j H; cbn [json_encodes_b] in H.
  - destruct j; try discriminate. apply andb_true_iff in H. destruct H as [H1 H2].
    apply EB_just; [apply nodupb_NoDup; exact H1|apply chk_just_sound; exact H2].
  - apply andb_true_iff in H. destruct H as [H12 H3]. apply andb_true_iff in H12. destruct H12 as [H1 H2].
    destruct (flat_of j) as [ms|] eqn:F; [|discriminate].
    unfold level_okb in H1. apply andb_true_iff in H1. destruct H1 as [H1ab H1c].
    apply andb_true_iff in H1ab. destruct H1ab as [H1a H1b].
    eapply EB_node.
    + split; [apply nodupb_NoDup; exact H1a|]. split; apply mem_nIn, negb_true_iff; assumption.
    + apply nodupb_NoDup. exact H2.
    + exact F.
    + eapply chk_props_sound; [|exact H3]. intros t c' v Hk. exact (IH t c' v Hk).
Qed.
