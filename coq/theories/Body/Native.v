(* Body/Native.v — C04: model of hclsyntax.Body (the native-syntax body),
   /repo/hclsyntax/structure.go.  Definitions only.

   Attributes are kept as a LIST in source order (Go: map[string]*Attribute;
   names are unique by construction of the parser — [nwf]); blocks as a list
   in source order (Go: Blocks slice). hiddenAttrs/hiddenBlocks are the name
   sets of structure.go:37-38 (nil = empty). *)
From HclV Require Import Base.Prelude Body.Laws.
From Coq Require Import String.
Open Scope list_scope.
Open Scope Z_scope.

Section Native.
Variable V : Type.   (* attribute expressions and child bodies, carried opaquely *)

Record nbody := {
  nattrs : list (attr V);     (* Body.Attributes, source order *)
  nblocks : list (block V);   (* Body.Blocks *)
  nhA : list name;            (* Body.hiddenAttrs *)
  nhB : list name             (* Body.hiddenBlocks *)
}.

(* b.Attributes[name] *)
Definition find_attr (n : name) (l : list (attr V)) : option (attr V) :=
  find (fun a => String.eqb n (aname a)) l.

(* PartialContent, loop over schema.Attributes (structure.go:144-162); the new
   hidden set grows while the loop runs *)
Fixpoint part_attrs (sa : list (name * bool)) (al : list (attr V)) (h : list name)
  : list (attr V) * list name * list diag :=
  match sa with
  | [] => ([], h, [])
  | (n, req) :: r =>
      match find_attr n al, mem n h with
      | Some a, false =>                              (* exists && !hidden *)
          let '(out, h', ds) := part_attrs r al (n :: h) in (a :: out, h', ds)
      | _, _ =>                                       (* hidden || !exists *)
          let '(out, h', ds) := part_attrs r al h in
          (out, h', if req then (MissingRequired, n) :: ds else ds)
      end
  end.

Definition nlen (bl : block V) : Z := Z.of_nat (List.length (blabels bl)).

(* what one block yields under a header schema with k labels
   (structure.go:178-220): itself, or a label diagnostic (block dropped) *)
Definition block_under (bl : block V) (k : Z) : list (block V) * list diag :=
  if k <? nlen bl then ([], [(ExtraLabel, btype bl)])
  else if nlen bl <? k then ([], [(MissingLabel, btype bl)])
  else ([bl], []).

(* PartialContent, loop over b.Blocks (structure.go:169-221); hidden block
   types are the ones of the RECEIVER: types are hidden only after the pass *)
Fixpoint part_blocks (sb : list (name * Z)) (bs : list (block V)) (h : list name)
  : list (block V) * list diag :=
  match bs with
  | [] => ([], [])
  | bl :: r =>
      let '(out, ds) := part_blocks sb r h in
      if mem (btype bl) h then (out, ds) else
      match wanted (btype bl) sb with
      | None => (out, ds)
      | Some k => let '(o, d) := block_under bl k in (o ++ out, d ++ ds)
      end
  end.

(* func (b *Body) PartialContent *)
Definition npartial (s : schema) (b : nbody) : content V * nbody * list diag :=
  let '(as_, h', d1) := part_attrs (sattrs s) (nattrs b) (nhA b) in
  let '(bs, d2) := part_blocks (sblocks s) (nblocks b) (nhB b) in
  ({| cattrs := as_; cblocks := bs |},
   {| nattrs := nattrs b; nblocks := nblocks b;
      nhA := h'; nhB := block_names s ++ nhB b |},
   d1 ++ d2).

(* the leftover scan of Content (structure.go:63-121) *)
Definition nleftovers (r : nbody) : list diag :=
  map (fun a => (UnsupportedAttr, aname a))
      (filter (fun a => negb (mem (aname a) (nhA r))) (nattrs r))
  ++ map (fun bl => (UnsupportedBlock, btype bl))
      (filter (fun bl => negb (mem (btype bl) (nhB r))) (nblocks r)).

(* func (b *Body) Content *)
Definition ncontent (s : schema) (b : nbody) : content V * list diag :=
  let '(c, r, d) := npartial s b in (c, d ++ nleftovers r).

Definition vis_attrs (b : nbody) : list (attr V) :=
  filter (fun a => negb (mem (aname a) (nhA b))) (nattrs b).
Definition vis_blocks (b : nbody) : list (block V) :=
  filter (fun bl => negb (mem (btype bl) (nhB b))) (nblocks b).

(* func (b *Body) JustAttributes: one error for the first block whose type is
   not hidden (structure.go:252-268: hidden block types are skipped, then
   break); attributes that are not hidden are returned regardless *)
Definition njust_attrs (b : nbody) : list (attr V) * list diag :=
  (vis_attrs b,
   match vis_blocks b with
   | [] => []
   | ex :: _ => [(UnexpectedBlock, btype ex)]
   end).

(* ---- abstraction ---------------------------------------------------------- *)
Definition item_of_attr (a : attr V) : item V :=
  {| iname := aname a; iattr := Some (aval a); iblock := None;
     ireport := [(UnsupportedAttr, aname a)] |}.
Definition item_of_block (bl : block V) : item V :=
  {| iname := btype bl; iattr := None; iblock := Some (block_under bl);
     ireport := [(UnsupportedBlock, btype bl)] |}.

Definition nitems (b : nbody) : list (item V) :=
  map item_of_attr (vis_attrs b) ++ map item_of_block (vis_blocks b).

(* the parser reports a second definition of an attribute at parse time and
   keeps one: names in Body.Attributes are unique *)
Definition nwf (b : nbody) : Prop := NoDup (map aname (nattrs b)).

Definition native_impl : BodyImpl V nbody :=
  {| b_partial := npartial; b_content := ncontent; b_just_attrs := njust_attrs;
     wf := nwf; items := nitems; body_diags := fun _ => [] |}.

End Native.

Arguments nattrs {V}. Arguments nblocks {V}. Arguments nhA {V}. Arguments nhB {V}.
Arguments npartial {V}. Arguments ncontent {V}. Arguments njust_attrs {V}.
Arguments nitems {V}. Arguments nwf {V}. Arguments item_of_attr {V}. Arguments item_of_block {V}.
Arguments block_under {V}. Arguments part_attrs {V}. Arguments part_blocks {V}.
Arguments find_attr {V}. Arguments nleftovers {V}. Arguments vis_attrs {V}. Arguments vis_blocks {V}.
Arguments nlen {V}.
