(* Body/BodyCheck.v — C04: correspondence checker. A case is a body of one of
   the Go implementations (native, JSON, dynblock.Expand of either, merges of
   those, dynblock.Expand of a merge), a history
   [PartialContent S1; ...; PartialContent S(k-1); Content Sk] and what the
   harness observed on the real code at every step; the models of
   Body/{Native,Json,Merged}.v (and the wrapper below) run the same history.
   Executed with vm_compute from generated case files.

   The model of dynblock's expandBody lives here: it is needed to predict the
   observations of Expand-wrapped bodies, but no law is PROVED about it
   (/repo/ext/dynblock/expand_body.go: extendSchema, PartialContent, Content,
   expandBlocks, prepareAttributes, JustAttributes; expand_spec.go: decodeSpec
   and newBlock for specs whose for_each and labels are constant lists). *)
From HclV Require Import Base.Prelude Body.Laws Body.Native Body.Json Body.Merged.
From Coq Require Import String Ascii.
Open Scope list_scope.
Open Scope Z_scope.

(* ---- dynblock.expandBody ---------------------------------------------------- *)
Section Expand.
Variable B : Type.
Variable I : BodyImpl jvalue B.   (* implementation of [original] *)

(* hiddenBlocks is a map type -> header schema: a later entry for the same
   type overrides an earlier one, which [wanted] (last wins) reproduces *)
Record ebody := { eorig : B; ehA : list name; ehB : list (name * Z) }.

Definition dynamic_name : name := "dynamic"%string.

(* func (b *expandBody) extendSchema *)
Definition extend_schema (s : schema) (e : ebody) : schema :=
  {| sattrs := sattrs s ++ map (fun n => (n, false)) (ehA e);
     sblocks := sblocks s ++ [(dynamic_name, 1)] ++ ehB e |}.

Definition jfind (n : name) (ms : list (name * jvalue)) : option (name * jvalue) :=
  find (fun m => String.eqb (fst m) n) ms.
Fixpoint jstrs (l : list jvalue) : list name :=
  match l with
  | [] => []
  | JStr s :: r => s :: jstrs r
  | _ :: r => jstrs r
  end.
(* case files mark the encoded body of a NATIVE dynamic block with this member
   (a JSON body cannot contain it: the generator never emits it) *)
Definition native_marker : name := "#native"%string.

(* decodeSpec + newBlock, for a spec body [v] with constant for_each (array of
   n elements) and constant labels (array of strings); k = number of labels
   the caller's header schema asks for *)
Definition dyn_blocks (real : name) (k : Z) (v : jvalue) : list (block jvalue) * list diag :=
  match v with
  | JObj ms =>
      match jfind "for_each"%string ms with
      | Some (_, JArr elems) =>
          let content := match jfind "content"%string ms with Some (_, c) => c | None => JNull end in
          if k =? 0 then
            (* dynamicBlockBodySchemaNoLabels: a "labels" argument is unexpected *)
            match jfind "labels"%string ms with
            | Some _ => ([], [(if is_some (jfind native_marker ms) then UnsupportedAttr else ExtraneousProp,
                               "labels"%string)])
            | None => (map (fun _ => mk_block real [] content) elems, [])
            end
          else
            (* dynamicBlockBodySchemaLabels: "labels" is required *)
            match jfind "labels"%string ms with
            | None => ([], [(MissingRequired, "labels"%string)])
            | Some (_, JArr ls) =>
                let n := Z.of_nat (List.length ls) in
                if k <? n then ([], [(ExtraDynLabel, real)])
                else if n <? k then ([], [(InsufficientDynLabel, real)])
                else (map (fun _ => mk_block real (jstrs ls) content) elems, [])
            | Some _ => ([], [(DynOther, real)])
            end
      | _ => ([], [(DynOther, real)])
      end
  | _ => ([], [(DynOther, real)])
  end.

(* func (b *expandBody) expandBlocks *)
Fixpoint expand_blocks (s : schema) (e : ebody) (partial : bool) (raws : list (block jvalue))
  : list (block jvalue) * list diag :=
  match raws with
  | [] => ([], [])
  | rb :: r =>
      let '(bs, ds) := expand_blocks s e partial r in
      if String.eqb (btype rb) dynamic_name then
        let real := hd EmptyString (blabels rb) in
        if mem real (map fst (ehB e)) then (bs, ds)
        (* `for i := range schema.Blocks { if … { blockS = &schema.Blocks[i] } }`: no break,
           the LAST entry of the type wins (as for static blocks and hiddenBlocks) *)
        else match find (fun c => String.eqb (fst c) real) (rev (sblocks s)) with
             | None => if partial then (bs, ds) else (bs, (UnsupportedBlock, real) :: ds)
             | Some (_, k) =>
                 let '(nb, nd) := dyn_blocks real k (bbody rb) in (nb ++ bs, nd ++ ds)
             end
      else if mem (btype rb) (map fst (ehB e)) then (bs, ds)
      else (rb :: bs, ds)
  end.

(* prepareAttributes, as far as names are concerned *)
Definition prepare_attrs (e : ebody) (l : list (attr jvalue)) : list (attr jvalue) :=
  filter (fun a => negb (mem (aname a) (ehA e))) l.

(* hiddenBlocks is a Go map keyed by the block type: `remain.hiddenBlocks[blockS.Type] = blockS`
   for the schema's entries in order — a later entry for the same type REPLACES the earlier one
   (the order of the entries of a map with unique keys is not observable by any consumer) *)
Definition hid_set (h : list (name * Z)) (b : name * Z) : list (name * Z) :=
  filter (fun x => negb (String.eqb (fst x) (fst b))) h ++ [b].

(* func (b *expandBody) PartialContent: the remaining body hides ALL names of
   the schema and keeps the whole original *)
Definition epartial (s : schema) (e : ebody) : content jvalue * ebody * list diag :=
  let '(raw, _, d) := b_partial I (extend_schema s e) (eorig e) in
  let '(bs, bd) := expand_blocks s e true (cblocks raw) in
  ({| cattrs := prepare_attrs e (cattrs raw); cblocks := bs |},
   {| eorig := eorig e; ehA := ehA e ++ attr_names s; ehB := fold_left hid_set (sblocks s) (ehB e) |},
   d ++ bd).

(* func (b *expandBody) Content *)
Definition econtent (s : schema) (e : ebody) : content jvalue * list diag :=
  let '(raw, d) := b_content I (extend_schema s e) (eorig e) in
  let '(bs, bd) := expand_blocks s e false (cblocks raw) in
  ({| cattrs := prepare_attrs e (cattrs raw); cblocks := bs |}, d ++ bd).

(* func (b *expandBody) JustAttributes (expand_body.go:263-290): when
   hiddenBlocks is not empty the original is first reduced by
   PartialContent(schema of the hidden block headers) — content and
   diagnostics discarded — and JustAttributes is asked of THAT remainder; the
   attributes recorded in hiddenAttrs are then filtered out *)
Definition ejust_attrs (e : ebody) : list (attr jvalue) * list diag :=
  let orig := match ehB e with
              | [] => eorig e
              | _ => snd (fst (b_partial I {| sattrs := []; sblocks := ehB e |} (eorig e)))
              end in
  let '(l, d) := b_just_attrs I orig in (prepare_attrs e l, d).

(* the abstraction fields are not used by the checker and no law is claimed *)
Definition expand_impl : BodyImpl jvalue ebody :=
  {| b_partial := epartial; b_content := econtent; b_just_attrs := ejust_attrs;
     wf := fun e => wf I (eorig e);
     items := fun e => filter (fun it => negb (mem (iname it) (ehA e ++ map fst (ehB e))))
                              (items I (eorig e));
     body_diags := fun e => body_diags I (eorig e) |}.
End Expand.

Arguments eorig {B}. Arguments ehA {B}. Arguments ehB {B}.
Arguments expand_impl {B}.

(* ---- the universe of bodies of the case files ------------------------------- *)
Definition B0 := (nbody jvalue + jbody)%type.                   (* one parsed file *)
Definition I0 : BodyImpl jvalue B0 := sum_impl (native_impl jvalue) json_impl.
Definition B1 := (B0 + ebody B0)%type.                          (* ... possibly under Expand *)
Definition I1 : BodyImpl jvalue B1 := sum_impl I0 (expand_impl I0).
Definition B2 := list B1.                                       (* MergeBodies of those *)
Definition I2 : BodyImpl jvalue B2 := merged_impl I1.
Definition B3 := (B2 + ebody B2)%type.                          (* ... possibly under Expand *)
Definition I3 : BodyImpl jvalue B3 := sum_impl I2 (expand_impl I2).
(* dynblock.Expand of an Expand-wrapped body. The body of a block returned by a
   STACK of two expandBody layers (Expand of a merge whose child is itself under
   Expand; Expand applied to a merge / remainder with such children) is wrapped
   once per layer (expandChild of the inner layer, then of the outer one): the
   outer layer hands every call to the inner one, which decodes the dynamic
   blocks again and repeats their diagnostics also on remaining bodies. *)
Definition B4 := ebody B1.
Definition I4 : BodyImpl jvalue B4 := expand_impl I1.
Definition Btop := ((B1 + B3) + B4)%type.
Definition Itop : BodyImpl jvalue Btop := sum_impl (sum_impl I1 I3) I4.

(* constructors used by the generated files *)
Definition At (n : string) (tag : Z) : attr jvalue := {| aname := n; aval := JLeaf tag |}.
Definition Bk (t : string) (labels : list string) (body : jvalue) : block jvalue :=
  {| btype := t; blabels := labels; bbody := body |}.
Definition Nt (attrs : list (attr jvalue)) (blocks : list (block jvalue)) : B0 :=
  inl {| nattrs := attrs; nblocks := blocks; nhA := []; nhB := [] |}.
Definition Js (j : jvalue) : B0 := inr {| jval := j; jhidden := [] |}.
Definition Pl (b : B0) : B1 := inl b.
Definition Xp (b : B0) : B1 := inr {| eorig := b; ehA := []; ehB := [] |}.
Definition Single (b : B1) : Btop := inl (inl b).
Definition Mrg (l : list (mchild B1)) : Btop := inl (inr (inl (merge_bodies l))).
Definition XMrg (l : list (mchild B1)) : Btop :=
  inl (inr (inr {| eorig := merge_bodies l; ehA := []; ehB := [] |})).
Definition XX (b : B0) : Btop := inr {| eorig := Xp b; ehA := []; ehB := [] |}.
(* the Body of a returned block under [depth] expandBody layers (the harness
   derives the depth from the history: layers over the file the block is in) *)
Definition child_body (depth : Z) (b0 : B0) : Btop :=
  if depth <=? 0 then Single (Pl b0) else if depth =? 1 then Single (Xp b0) else XX b0.
Definition Sch (attrs : list (string * bool)) (blocks : list (string * Z)) : schema :=
  {| sattrs := attrs; sblocks := blocks |}.

(* ---- child bodies (one level of descent) ---------------------------------------
   The body of a JSON block is its JSON value. The body of a NATIVE block is
   carried in the case files as an encoding: JObj (("#native", JNull) ::
   ("#labels", JArr [JStr l; ...]) :: members) where a member whose value is an
   object is a nested block (encoded the same way) and any other member is an
   attribute. *)
Definition is_hash (n : string) : bool :=
  match n with String c _ => Nat.eqb (Ascii.nat_of_ascii c) 35 | EmptyString => false end.
Definition labels_of (ms : list (name * jvalue)) : list name :=
  match jfind "#labels"%string ms with Some (_, JArr ls) => jstrs ls | _ => [] end.
Definition decode_native (ms : list (name * jvalue)) : nbody jvalue :=
  {| nattrs := flat_map (fun m => match snd m with
                                  | JObj _ => []
                                  | _ => if is_hash (fst m) then [] else [At (fst m) 0]
                                  end) ms;
     nblocks := flat_map (fun m => match snd m with
                                   | JObj ms' => [Bk (fst m) (labels_of ms') (snd m)]
                                   | _ => []
                                   end) ms;
     nhA := []; nhB := [] |}.
Definition decode_child (v : jvalue) : B0 :=
  match v with
  | JObj ms => if is_some (jfind native_marker ms) then inl (decode_native ms) else Js v
  | _ => Js v
  end.

(* ---- observations ------------------------------------------------------------ *)
Record obs := {
  o_attrs : list string;                     (* names of content.Attributes *)
  o_blocks : list (string * list string);    (* (Type, Labels) of content.Blocks, in order *)
  o_diags : list diag                        (* set of (kind, name) of the diagnostics *)
}.
Definition Ob := Build_obs.

Definition dkind_code (k : dkind) : Z :=
  match k with
  | MissingRequired => 1 | ExtraLabel => 2 | MissingLabel => 3 | UnsupportedAttr => 4
  | UnsupportedBlock => 5 | ExtraneousProp => 6 | Duplicate => 7 | MissingBlockLabel => 8
  | BadType => 9 | UnexpectedBlock => 10 | ExtraDynLabel => 11 | InsufficientDynLabel => 12
  | DynOther => 13
  end.
Definition diag_eqb (a b : diag) : bool :=
  (dkind_code (fst a) =? dkind_code (fst b)) && String.eqb (snd a) (snd b).
Definition memd (x : diag) (l : list diag) : bool := existsb (diag_eqb x) l.

Definition same_names (a b : list string) : bool :=
  forallb (fun x => mem x b) a && forallb (fun x => mem x a) b
  && Nat.eqb (List.length a) (List.length b).
Definition same_diags (a b : list diag) : bool :=
  forallb (fun x => memd x b) a && forallb (fun x => memd x a) b.
Definition blk_eqb (a b : string * list string) : bool :=
  String.eqb (fst a) (fst b) && list_eqb String.eqb (snd a) (snd b).

Definition obs_ok (c : content jvalue) (d : list diag) (o : obs) : bool :=
  same_names (map aname (cattrs c)) (o_attrs o)
  && list_eqb blk_eqb (map (fun bl => (btype bl, blabels bl)) (cblocks c)) (o_blocks o)
  && same_diags d (o_diags o).

Definition ja_ok (r : list (attr jvalue) * list diag) (o : list string * list diag) : bool :=
  same_names (map aname (fst r)) (fst o) && same_diags (snd r) (snd o).

Definition ja_obs := (list string * list diag)%type.

(* Content(child schema) on the Body of a returned block; the number says how
   many dynblock expandBody layers wrap the Go body (0, 1 or 2) *)
Definition child_obs := (Z * obs)%type.

Definition child_ok (cs : schema) (bl : block jvalue) (o : child_obs) : bool :=
  let b := child_body (fst o) (decode_child (bbody bl)) in
  let '(c, d) := b_content Itop cs b in obs_ok c d (snd o).

Definition children_ok (cs : schema) (bls : list (block jvalue)) (os : list child_obs) : bool :=
  Nat.eqb (List.length bls) (List.length os)
  && forallb (fun p => child_ok cs (fst p) (snd p)) (combine bls os).

(* ---- tree-shaped histories -----------------------------------------------------
   hcl.Body values are VALUES: Content / PartialContent / JustAttributes must
   not change the body they are called on, so a body (root, remainder, child
   block body, Expand of any of those) may be used any number of times and for
   several different continuations. The models are pure functions, so a
   tree-shaped history is a list of operations over a growing TABLE of bodies:
   every operation names the table entry it is applied to; PartialContent
   appends the remaining body, Expand the wrapped body, Child the Body of the
   k-th block returned by PartialContent/Content S. The harness executes the
   same operations on the SAME Go objects (no re-parsing in between). *)
Inductive top :=
| TPartial (on : Z) (s : schema) (o : obs) (ja : ja_obs)  (* appends the remaining body; ja = its JustAttributes *)
| TContent (on : Z) (s : schema) (o : obs)
| TJust (on : Z) (ja : ja_obs)
| TExpand (on : Z)                                        (* appends dynblock.Expand(body) *)
| TChild (on : Z) (partial : bool) (s : schema) (k : Z) (depth : Z).
    (* appends the Body of block k of PartialContent/Content s; depth: expandBody layers around the Go body *)

(* dynblock.Expand of a body of the universe (an expandBody is never wrapped again) *)
Definition expand_top (b : Btop) : option Btop :=
  match b with
  | inl (inl (inl b0)) => Some (Single (inr {| eorig := b0; ehA := []; ehB := [] |}))
  | inl (inr (inl m)) => Some (inl (inr (inr {| eorig := m; ehA := []; ehB := [] |})))
  | _ => None
  end.

Definition child_top (b : Btop) (partial : bool) (s : schema) (k : Z) (depth : Z) : option Btop :=
  let c := if partial then fst (fst (b_partial Itop s b)) else fst (b_content Itop s b) in
  match nth_error (cblocks c) (Z.to_nat k) with
  | Some bl => Some (child_body depth (decode_child (bbody bl)))
  | None => None
  end.

Definition nthb (bs : list Btop) (i : Z) : option Btop :=
  if i <? 0 then None else nth_error bs (Z.to_nat i).

Fixpoint check_tree (bs : list Btop) (ops : list top) : bool :=
  match ops with
  | [] => true
  | op :: r =>
      match op with
      | TPartial on s o ja =>
          match nthb bs on with
          | Some b => let '(c, rm, d) := b_partial Itop s b in
                      obs_ok c d o && ja_ok (b_just_attrs Itop rm) ja && check_tree (bs ++ [rm]) r
          | None => false
          end
      | TContent on s o =>
          match nthb bs on with
          | Some b => let '(c, d) := b_content Itop s b in obs_ok c d o && check_tree bs r
          | None => false
          end
      | TJust on ja =>
          match nthb bs on with
          | Some b => ja_ok (b_just_attrs Itop b) ja && check_tree bs r
          | None => false
          end
      | TExpand on =>
          match nthb bs on with
          | Some b => match expand_top b with
                      | Some b' => check_tree (bs ++ [b']) r
                      | None => false
                      end
          | None => false
          end
      | TChild on p s k x =>
          match nthb bs on with
          | Some b => match child_top b p s k x with
                      | Some b' => check_tree (bs ++ [b']) r
                      | None => false
                      end
          | None => false
          end
      end
  end.

Record case := {
  c_body : Btop;
  c_child : schema;                                  (* schema applied to every returned block's Body *)
  c_ja0 : ja_obs;                                    (* JustAttributes of the body itself *)
  c_steps : list (schema * obs * ja_obs * list child_obs);  (* PartialContent S; JustAttributes of remain; children *)
  c_last : schema * obs * list child_obs;            (* Content S on the last remain; children *)
  c_tree : list top                                  (* tree-shaped history over the same body (table entry 0) *)
}.
Definition Case := Build_case.

Fixpoint check_steps (cs : schema) (b : Btop)
    (steps : list (schema * obs * ja_obs * list child_obs)) (last : schema * obs * list child_obs) : bool :=
  match steps with
  | [] => let '(s, o, ch) := last in
          let '(c, d) := b_content Itop s b in
          obs_ok c d o && children_ok cs (cblocks c) ch
  | (s, o, ja, ch) :: r =>
      let '(c, rm, d) := b_partial Itop s b in
      obs_ok c d o && ja_ok (b_just_attrs Itop rm) ja && children_ok cs (cblocks c) ch
      && check_steps cs rm r last
  end.

Definition check_body_case (c : case) : bool :=
  ja_ok (b_just_attrs Itop (c_body c)) (c_ja0 c)
  && check_steps (c_child c) (c_body c) (c_steps c) (c_last c)
  && check_tree [c_body c] (c_tree c).

Definition check_body_cases (cs : list case) : list Z := failing check_body_case cs.

(* what the model says for one case (to print a disagreement) *)
Definition mobs := (list string * list (string * list string) * list diag)%type.
Definition model_children (cs : schema) (flags : list Z) (bls : list (block jvalue)) : list mobs :=
  map (fun p : block jvalue * Z =>
         let cd := b_content Itop cs (child_body (snd p) (decode_child (bbody (fst p)))) in
         ((map aname (cattrs (fst cd)), map (fun bl => (btype bl, blabels bl)) (cblocks (fst cd)), snd cd) : mobs))
      (combine bls flags).

Fixpoint model_steps (cs : schema) (b : Btop) (steps : list (schema * list Z)) (last : schema * list Z)
  : list (mobs * ja_obs * list mobs) :=
  match steps with
  | [] => let '(c, d) := b_content Itop (fst last) b in
          [(map aname (cattrs c), map (fun bl => (btype bl, blabels bl)) (cblocks c), d,
            (@nil string, @nil diag) : ja_obs, model_children cs (snd last) (cblocks c))]
  | (s, fl) :: r =>
      let '(c, rm, d) := b_partial Itop s b in
      let '(l, jd) := b_just_attrs Itop rm in
      (map aname (cattrs c), map (fun bl => (btype bl, blabels bl)) (cblocks c), d,
       (map aname l, jd), model_children cs fl (cblocks c))
      :: model_steps cs rm r last
  end.
Definition model_case (c : case) :=
  model_steps (c_child c) (c_body c)
    (map (fun x => (fst (fst (fst x)), map fst (snd x))) (c_steps c))
    (fst (fst (c_last c)), map fst (snd (c_last c))).

(* what the model says for the operations of a tree-shaped history: one entry
   per operation (Expand / Child: empty observation, or DynOther "not in the
   universe" when the operation cannot be applied) *)
Definition mobs_of (c : content jvalue) (d : list diag) : mobs :=
  (map aname (cattrs c), map (fun bl => (btype bl, blabels bl)) (cblocks c), d).
Definition no_mobs : mobs := ([], [], []).
Definition bad_mobs : mobs := ([], [], [(DynOther, "not in the universe"%string)]).
Fixpoint model_tree (bs : list Btop) (ops : list top) : list (mobs * ja_obs) :=
  match ops with
  | [] => []
  | op :: r =>
      match op with
      | TPartial on s _ _ =>
          match nthb bs on with
          | Some b => let '(c, rm, d) := b_partial Itop s b in
                      let '(l, jd) := b_just_attrs Itop rm in
                      (mobs_of c d, (map aname l, jd)) :: model_tree (bs ++ [rm]) r
          | None => [(bad_mobs, ([], []))]
          end
      | TContent on s _ =>
          match nthb bs on with
          | Some b => let '(c, d) := b_content Itop s b in (mobs_of c d, ([], [])) :: model_tree bs r
          | None => [(bad_mobs, ([], []))]
          end
      | TJust on _ =>
          match nthb bs on with
          | Some b => let '(l, jd) := b_just_attrs Itop b in (no_mobs, (map aname l, jd)) :: model_tree bs r
          | None => [(bad_mobs, ([], []))]
          end
      | TExpand on =>
          match nthb bs on with
          | Some b => match expand_top b with
                      | Some b' => (no_mobs, ([], [])) :: model_tree (bs ++ [b']) r
                      | None => [(bad_mobs, ([], []))]
                      end
          | None => [(bad_mobs, ([], []))]
          end
      | TChild on p s k x =>
          match nthb bs on with
          | Some b => match child_top b p s k x with
                      | Some b' => (no_mobs, ([], [])) :: model_tree (bs ++ [b']) r
                      | None => [(bad_mobs, ([], []))]
                      end
          | None => [(bad_mobs, ([], []))]
          end
      end
  end.
Definition model_case_tree (c : case) := model_tree [c_body c] (c_tree c).
