(* Body/NativeProofs.v — C04: the native-syntax body (Body/Native.v,
   hclsyntax/structure.go) satisfies the laws of Body/Laws.v; and the one law
   it does NOT satisfy (JustAttributes on a remaining body), with witness. *)
From HclV Require Import Base.Prelude Body.Laws Body.LawsProofs Body.Native.
From Coq Require Import String Permutation.
Open Scope list_scope.
Open Scope Z_scope.

Lemma filter_map_comm {A B} (p : B -> bool) (f : A -> B) l :
  filter p (map f l) = map f (filter (fun x => p (f x)) l).
Proof.
  induction l as [|a r IH]; simpl; [reflexivity|]. destruct (p (f a)); simpl; rewrite IH; reflexivity.
Qed.

Lemma filter_filter_and {A} (p q : A -> bool) l :
  filter p (filter q l) = filter (fun x => q x && p x) l.
Proof.
  induction l as [|a r IH]; simpl; [reflexivity|].
  destruct (q a); simpl; [destruct (p a); rewrite IH; reflexivity|exact IH].
Qed.

Lemma flat_map_singleton {A B} (f : A -> B) l : flat_map (fun x => [f x]) l = map f l.
Proof. induction l as [|a r IH]; simpl; [reflexivity|]. rewrite IH. reflexivity. Qed.

Section NativeProofs.
Variable V : Type.
Notation attr := (attr V).
Notation block := (block V).
Notation nbody := (nbody V).

Lemma attr_eta (a : attr) : {| aname := aname a; aval := aval a |} = a.
Proof. destruct a; reflexivity. Qed.

Lemma NoDup_names_filter (p : attr -> bool) l : NoDup (map aname l) -> NoDup (map aname (filter p l)).
Proof.
  induction l as [|a r IH]; simpl; intro ND; [constructor|].
  inversion ND as [|? ? Hn ND']; subst. destruct (p a); simpl; [|auto].
  constructor; [|auto]. intro X. apply Hn. apply in_map_iff in X. destruct X as [x [E Hx]].
  apply filter_In in Hx. apply in_map_iff. exists x. tauto.
Qed.

Lemma names_inj (l : list attr) a a' :
  NoDup (map aname l) -> In a l -> In a' l -> aname a = aname a' -> a = a'.
Proof.
  induction l as [|x r IH]; simpl; intros ND H H' E; [contradiction|].
  inversion ND as [|? ? Hn ND']; subst.
  destruct H as [H|H], H' as [H'|H'].
  - congruence.
  - subst. exfalso. apply Hn. rewrite E. apply in_map. exact H'.
  - subst. exfalso. apply Hn. rewrite <- E. apply in_map. exact H.
  - auto.
Qed.

Lemma find_attr_some n (l : list attr) a : find_attr n l = Some a -> In a l /\ aname a = n.
Proof.
  unfold find_attr. intro H. apply find_some in H. destruct H as [H E].
  apply String.eqb_eq in E. auto.
Qed.

Lemma find_attr_none n (l : list attr) a : find_attr n l = None -> In a l -> aname a <> n.
Proof.
  unfold find_attr. intros H Ha E. pose proof (find_none _ _ H a Ha) as X. cbv beta in X.
  rewrite E, String.eqb_refl in X. discriminate.
Qed.

(* ---- the attribute loop --------------------------------------------------- *)
Lemma part_attrs_In sa : forall (al : list attr) h out h' ds,
  part_attrs sa al h = (out, h', ds) -> NoDup (map aname al) ->
  forall a, In a out <-> In a al /\ mem (aname a) h = false /\ In (aname a) (map fst sa).
Proof.
  induction sa as [|[n req] r IH]; intros al h out h' ds E ND a.
  - cbn in E. inversion E; subst. simpl. tauto.
  - cbn [part_attrs] in E.
    destruct (find_attr n al) as [a0|] eqn:F; [destruct (mem n h) eqn:M|].
    + destruct (part_attrs r al h) as [[o x] y] eqn:R. inversion E; subst.
      rewrite (IH _ _ _ _ _ R ND a). cbn [map fst]. split.
      * intros [H1 [H2 H3]]. simpl. tauto.
      * intros [H1 [H2 [H3|H3]]]; [|tauto]. subst. congruence.
    + destruct (part_attrs r al (n :: h)) as [[o x] y] eqn:R. inversion E; subst.
      apply find_attr_some in F. destruct F as [F1 F2].
      cbn [In map fst]. rewrite (IH _ _ _ _ _ R ND a). rewrite mem_cons. split.
      * intros [H|[H1 [H2 H3]]].
        -- subst a0. rewrite F2. tauto.
        -- apply orb_false_iff in H2. tauto.
      * intros [H1 [H2 H3]].
        destruct (String.eqb (aname a) n) eqn:En.
        -- left. apply String.eqb_eq in En. apply (names_inj al); auto. congruence.
        -- right. split; [exact H1|]. split; [simpl; exact H2|].
           destruct H3 as [H3|H3]; [|exact H3]. apply String.eqb_neq in En. congruence.
    + destruct (part_attrs r al h) as [[o x] y] eqn:R. inversion E; subst.
      rewrite (IH _ _ _ _ _ R ND a). cbn [map fst]. split.
      * intros [H1 [H2 H3]]. simpl. tauto.
      * intros [H1 [H2 [H3|H3]]]; [|tauto]. exfalso. exact (find_attr_none _ _ _ F H1 (eq_sym H3)).
Qed.

Lemma part_attrs_nodup sa : forall (al : list attr) h out h' ds,
  part_attrs sa al h = (out, h', ds) ->
  NoDup (map aname out) /\ (forall a, In a out -> mem (aname a) h = false).
Proof.
  induction sa as [|[n req] r IH]; intros al h out h' ds E.
  - cbn in E. inversion E; subst. split; [constructor|]. intros a [].
  - cbn [part_attrs] in E.
    destruct (find_attr n al) as [a0|] eqn:F; [destruct (mem n h) eqn:M|].
    + destruct (part_attrs r al h) as [[o x] y] eqn:R. inversion E; subst. eapply IH; eauto.
    + destruct (part_attrs r al (n :: h)) as [[o x] y] eqn:R. inversion E; subst.
      destruct (IH _ _ _ _ _ R) as [N1 N2]. apply find_attr_some in F. destruct F as [F1 F2].
      split.
      * simpl. constructor; [|exact N1]. intro X. apply in_map_iff in X.
        destruct X as [a [Ea Ha]]. apply N2 in Ha. rewrite mem_cons in Ha.
        rewrite Ea, F2, String.eqb_refl in Ha. discriminate.
      * intros a [H|H]; [subst a0; rewrite F2; exact M|].
        apply N2 in H. rewrite mem_cons in H. apply orb_false_iff in H. tauto.
    + destruct (part_attrs r al h) as [[o x] y] eqn:R. inversion E; subst. eapply IH; eauto.
Qed.

Lemma part_attrs_hidden sa : forall (al : list attr) h out h' ds,
  part_attrs sa al h = (out, h', ds) ->
  forall a, In a al -> mem (aname a) h' = mem (aname a) h || mem (aname a) (map fst sa).
Proof.
  induction sa as [|[n req] r IH]; intros al h out h' ds E a Ha.
  - cbn in E. inversion E; subst. simpl. rewrite orb_false_r. reflexivity.
  - cbn [part_attrs] in E. cbn [map fst]. rewrite mem_cons.
    destruct (find_attr n al) as [a0|] eqn:F; [destruct (mem n h) eqn:M|].
    + destruct (part_attrs r al h) as [[o x] y] eqn:R. inversion E; subst.
      rewrite (IH _ _ _ _ _ R a Ha).
      destruct (String.eqb (aname a) n) eqn:En; [|reflexivity].
      apply String.eqb_eq in En. rewrite En, M. reflexivity.
    + destruct (part_attrs r al (n :: h)) as [[o x] y] eqn:R. inversion E; subst.
      rewrite (IH _ _ _ _ _ R a Ha), mem_cons.
      destruct (String.eqb (aname a) n), (mem (aname a) h); reflexivity.
    + destruct (part_attrs r al h) as [[o x] y] eqn:R. inversion E; subst.
      rewrite (IH _ _ _ _ _ R a Ha).
      destruct (String.eqb (aname a) n) eqn:En; [|reflexivity].
      apply String.eqb_eq in En. exfalso. exact (find_attr_none _ _ _ F Ha En).
Qed.

Lemma part_attrs_diags sa : forall (al : list attr) h out h' ds,
  part_attrs sa al h = (out, h', ds) -> NoDup (map fst sa) ->
  forall x, In x ds <->
    exists n, x = (MissingRequired, n) /\ In (n, true) sa /\
              ~ (exists a, In a al /\ aname a = n /\ mem n h = false).
Proof.
  induction sa as [|[n req] r IH]; intros al h out h' ds E ND x.
  - cbn in E. inversion E; subst. simpl. split; [tauto|]. intros [n [_ [[] _]]].
  - cbn [part_attrs] in E. cbn [map fst] in ND. inversion ND as [|? ? Hn ND']; subst.
    assert (forall n', In (n', true) r -> n' <> n) as NE.
    { intros n' H X. subst. apply Hn. apply in_map_iff. exists (n, true). tauto. }
    destruct (find_attr n al) as [a0|] eqn:F; [destruct (mem n h) eqn:M|].
    + destruct (part_attrs r al h) as [[o z] y] eqn:R. inversion E; subst.
      destruct req.
      * cbn [In]. rewrite (IH _ _ _ _ _ R ND' x). split.
        -- intros [H|[n' [E1 [E2 E3]]]].
           ++ exists n. split; [auto|]. split; [left; reflexivity|].
              intros [a [_ [_ X]]]. congruence.
           ++ exists n'. split; [exact E1|]. split; [right; exact E2|exact E3].
        -- intros [n' [E1 [[E2|E2] E3]]].
           ++ left. inversion E2; subst. reflexivity.
           ++ right. exists n'. tauto.
      * rewrite (IH _ _ _ _ _ R ND' x). split.
        -- intros [n' [E1 [E2 E3]]]. exists n'. split; [exact E1|]. split; [right; exact E2|exact E3].
        -- intros [n' [E1 [[E2|E2] E3]]]; [discriminate|]. exists n'. tauto.
    + destruct (part_attrs r al (n :: h)) as [[o z] y] eqn:R. inversion E; subst.
      apply find_attr_some in F. destruct F as [F1 F2].
      rewrite (IH _ _ _ _ _ R ND' x). split.
      * intros [n' [E1 [E2 E3]]]. exists n'. split; [exact E1|]. split; [right; exact E2|].
        intros [a [A1 [A2 A3]]]. apply E3. exists a. split; [exact A1|]. split; [exact A2|].
        rewrite mem_cons, A3, orb_false_r. apply String.eqb_neq. apply NE. exact E2.
      * intros [n' [E1 [[E2|E2] E3]]].
        -- inversion E2; subst. exfalso. apply E3. exists a0. tauto.
        -- exists n'. split; [exact E1|]. split; [exact E2|].
           intros [a [A1 [A2 A3]]]. apply E3. exists a. split; [exact A1|]. split; [exact A2|].
           rewrite mem_cons in A3. apply orb_false_iff in A3. tauto.
    + destruct (part_attrs r al h) as [[o z] y] eqn:R. inversion E; subst.
      destruct req.
      * cbn [In]. rewrite (IH _ _ _ _ _ R ND' x). split.
        -- intros [H|[n' [E1 [E2 E3]]]].
           ++ exists n. split; [auto|]. split; [left; reflexivity|].
              intros [a [A1 [A2 _]]]. exact (find_attr_none _ _ _ F A1 A2).
           ++ exists n'. split; [exact E1|]. split; [right; exact E2|exact E3].
        -- intros [n' [E1 [[E2|E2] E3]]].
           ++ left. inversion E2; subst. reflexivity.
           ++ right. exists n'. tauto.
      * rewrite (IH _ _ _ _ _ R ND' x). split.
        -- intros [n' [E1 [E2 E3]]]. exists n'. split; [exact E1|]. split; [right; exact E2|exact E3].
        -- intros [n' [E1 [[E2|E2] E3]]]; [discriminate|]. exists n'. tauto.
Qed.

(* ---- items ---------------------------------------------------------------- *)
Lemma sel_attrs_attr_items s (l : list attr) :
  sel_attrs s (map item_of_attr l) = filter (fun a => mem (aname a) (attr_names s)) l.
Proof.
  induction l as [|a r IH]; [reflexivity|].
  unfold sel_attrs in *. cbn [map flat_map filter]. rewrite IH.
  unfold sel_attr. cbn [item_of_attr iattr iname].
  destruct (mem (aname a) (attr_names s)); [rewrite attr_eta|]; reflexivity.
Qed.

Lemma all_attrs_attr_items (l : list attr) : all_attrs (map item_of_attr l) = l.
Proof.
  induction l as [|a r IH]; [reflexivity|].
  unfold all_attrs in *. cbn [map flat_map item_of_attr iattr iname]. rewrite IH, attr_eta. reflexivity.
Qed.

Lemma sel_attr_block_item s (bl : block) : sel_attr s (item_of_block bl) = None.
Proof. reflexivity. Qed.

Lemma sel_attrs_block_items s (l : list block) : sel_attrs s (map item_of_block l) = [].
Proof. induction l as [|a r IH]; [reflexivity|]. unfold sel_attrs in *. cbn [map flat_map]. exact IH. Qed.

Lemma all_attrs_block_items (l : list block) : all_attrs (map (@item_of_block V) l) = [].
Proof. induction l as [|a r IH]; [reflexivity|]. unfold all_attrs in *. cbn [map flat_map]. exact IH. Qed.

Lemma sel_block_attr_item s (a : attr) : sel_block s (item_of_attr a) = None.
Proof. unfold sel_block. destruct (sel_attr s (item_of_attr a)); reflexivity. Qed.

Lemma sel_blocks_attr_items s (l : list attr) : sel_blocks s (map item_of_attr l) = [].
Proof.
  induction l as [|a r IH]; [reflexivity|]. unfold sel_blocks in *. cbn [map flat_map].
  rewrite sel_block_attr_item. exact IH.
Qed.

Lemma block_diags_attr_items s (l : list attr) : block_diags s (map item_of_attr l) = [].
Proof.
  induction l as [|a r IH]; [reflexivity|]. unfold block_diags in *. cbn [map flat_map].
  rewrite sel_block_attr_item. exact IH.
Qed.

Lemma sel_block_block_item s (bl : block) :
  sel_block s (item_of_block bl)
  = match wanted (btype bl) (sblocks s) with Some k => Some (block_under bl k) | None => None end.
Proof. reflexivity. Qed.

(* ---- the block loop -------------------------------------------------------- *)
Lemma part_blocks_spec s (bs : list block) h :
  part_blocks (sblocks s) bs h
  = (sel_blocks s (map item_of_block (filter (fun bl => negb (mem (btype bl) h)) bs)),
     block_diags s (map item_of_block (filter (fun bl => negb (mem (btype bl) h)) bs))).
Proof.
  induction bs as [|bl r IH]; [reflexivity|].
  cbn [part_blocks filter]. rewrite IH. destruct (mem (btype bl) h); cbn [negb]; [reflexivity|].
  unfold sel_blocks, block_diags. cbn [map flat_map]. rewrite sel_block_block_item.
  destruct (wanted (btype bl) (sblocks s)) as [k|]; [|reflexivity].
  destruct (block_under bl k) as [o d]. reflexivity.
Qed.

Lemma consumed_attr_item s (a : attr) :
  consumed s (item_of_attr a) = mem (aname a) (attr_names s).
Proof. unfold consumed. cbn. rewrite orb_false_r. reflexivity. Qed.

Lemma consumed_block_item s (bl : block) :
  consumed s (item_of_block bl) = mem (btype bl) (block_names s).
Proof. unfold consumed. cbn. reflexivity. Qed.

(* ---- the laws --------------------------------------------------------------- *)
Lemma native_items_ok : items_ok (native_impl V).
Proof.
  intros b _. cbn [items native_impl]. unfold nitems. apply Forall_app. split.
  - apply Forall_forall. intros it H. apply in_map_iff in H. destruct H as [a [E _]]. subst.
    intros f k bl H. discriminate.
  - apply Forall_forall. intros it H. apply in_map_iff in H. destruct H as [x [E _]]. subst.
    intros f k bl H Hin. cbn in H. inversion H; subst. cbn [iname item_of_block].
    unfold block_under in Hin. destruct (k <? nlen x); [destruct Hin|].
    destruct (nlen x <? k); [destruct Hin|]. destruct Hin as [Hin|[]]. congruence.
Qed.

Lemma native_sel_attrs s (b : nbody) :
  sel_attrs s (nitems b) = filter (fun a => mem (aname a) (attr_names s)) (vis_attrs b).
Proof.
  unfold nitems. rewrite sel_attrs_app, sel_attrs_attr_items, sel_attrs_block_items, app_nil_r.
  reflexivity.
Qed.

Lemma native_firsts s (b : nbody) : nwf b ->
  firsts (sel_attrs s (nitems b)) = sel_attrs s (nitems b) /\ dups (sel_attrs s (nitems b)) = [].
Proof.
  intro W. rewrite native_sel_attrs. apply firsts_from_nodup.
  - apply NoDup_names_filter. apply NoDup_names_filter. exact W.
  - reflexivity.
Qed.

Lemma native_exactly_once : content_exactly_once (native_impl V).
Proof.
  intros s b W. cbn [b_partial native_impl items]. unfold npartial.
  destruct (part_attrs (sattrs s) (nattrs b) (nhA b)) as [[out h'] d1] eqn:PA.
  rewrite part_blocks_spec. cbn [fst snd cattrs cblocks].
  split; [|split].
  - intro a. destruct (native_firsts s b W) as [F _]. rewrite F, native_sel_attrs.
    rewrite (part_attrs_In _ _ _ _ _ _ PA W a). unfold vis_attrs. rewrite !filter_In.
    rewrite negb_true_iff, mem_In. unfold attr_names. tauto.
  - eapply part_attrs_nodup. exact PA.
  - unfold nitems. rewrite sel_blocks_app, sel_blocks_attr_items. reflexivity.
Qed.

Lemma native_partial_reports : partial_reports (native_impl V).
Proof.
  intros s b W Hok. cbn [b_partial native_impl items body_diags]. unfold npartial.
  destruct (part_attrs (sattrs s) (nattrs b) (nhA b)) as [[out h'] d1] eqn:PA.
  rewrite part_blocks_spec. cbn [cattrs app].
  destruct (native_firsts s b W) as [_ D]. rewrite D. cbn [dup_diags map app].
  intro x. rewrite !in_app_iff.
  assert (block_diags s (nitems b)
          = block_diags s (map item_of_block (filter (fun bl => negb (mem (btype bl) (nhB b))) (nblocks b)))) as EB.
  { unfold nitems. rewrite block_diags_app, block_diags_attr_items. reflexivity. }
  rewrite EB.
  assert (In x d1 <-> In x (missing s out)) as EM; [|tauto].
  rewrite (part_attrs_diags _ _ _ _ _ _ PA Hok x), In_missing.
  split; intros [n [E1 [E2 E3]]]; exists n; (split; [exact E1|]); (split; [exact E2|]).
  - intro X. apply in_map_iff in X. destruct X as [a [Ea Ha]].
    apply (part_attrs_In _ _ _ _ _ _ PA W a) in Ha. apply E3. exists a. rewrite <- Ea. tauto.
  - intros [a [A1 [A2 A3]]]. apply E3. apply in_map_iff. exists a. split; [exact A2|].
    apply (part_attrs_In _ _ _ _ _ _ PA W a). rewrite A2. split; [exact A1|]. split; [exact A3|].
    apply in_map_iff. exists (n, true). tauto.
Qed.

Lemma native_keeps_rest : partial_keeps_rest (native_impl V).
Proof.
  intros s b W. cbn [b_partial native_impl items wf body_diags]. unfold npartial.
  destruct (part_attrs (sattrs s) (nattrs b) (nhA b)) as [[out h'] d1] eqn:PA.
  destruct (part_blocks (sblocks s) (nblocks b) (nhB b)) as [bs d2]. cbn [fst snd].
  split; [exact W|]. split; [|reflexivity].
  unfold nitems, vis_attrs, vis_blocks. cbn [nattrs nblocks nhA nhB].
  rewrite filter_app, !filter_map_comm, !filter_filter_and. f_equal; f_equal.
  - apply filter_ext_in. intros a Ha. rewrite consumed_attr_item.
    rewrite (part_attrs_hidden _ _ _ _ _ _ PA a Ha), negb_orb. reflexivity.
  - apply filter_ext. intro bl. rewrite consumed_block_item, mem_app, negb_orb.
    apply andb_comm.
Qed.

Lemma native_rest_diags (r : nbody) : nleftovers r = rest_diags (nitems r).
Proof.
  unfold nleftovers, nitems. rewrite rest_diags_app. unfold rest_diags.
  rewrite !flat_map_concat_map, !map_map. cbn [ireport item_of_attr item_of_block].
  rewrite <- !flat_map_concat_map, !flat_map_singleton. reflexivity.
Qed.

Lemma native_reports_rest : content_reports_rest (native_impl V).
Proof.
  intros s b W. cbn [b_partial b_content native_impl items body_diags]. unfold ncontent.
  destruct (npartial s b) as [[c r] d]. cbn [fst snd app].
  split; [reflexivity|]. rewrite native_rest_diags. apply Permutation_refl.
Qed.

Lemma native_just_attrs : just_attrs_visible (native_impl V).
Proof.
  intros b W. cbn [b_just_attrs native_impl items]. unfold njust_attrs.
  assert (all_attrs (nitems b) = vis_attrs b) as EA.
  { unfold nitems. rewrite all_attrs_app, all_attrs_attr_items, all_attrs_block_items, app_nil_r.
    reflexivity. }
  assert (NoDup (map aname (vis_attrs b))) as ND by (apply NoDup_names_filter; exact W).
  split; [|split].
  - intros a Ha. rewrite EA. exact Ha.
  - exact ND.
  - intros _ it v Hit Hv _. unfold nitems in Hit. apply in_app_iff in Hit. destruct Hit as [Hit|Hit].
    + apply in_map_iff in Hit. destruct Hit as [a [E Ha]]. subst. cbn [iname item_of_attr].
      apply in_map. exact Ha.
    + apply in_map_iff in Hit. destruct Hit as [x [E _]]. subst. discriminate.
Qed.

(* JustAttributes reports a diagnostic iff some VISIBLE block exists, and then
   it names the first one (holds for every hidden set, i.e. for remainders) *)
Lemma native_just_attrs_diag (b : nbody) :
  snd (njust_attrs b) = match vis_blocks b with
                        | [] => []
                        | ex :: _ => [(UnexpectedBlock, btype ex)]
                        end.
Proof. reflexivity. Qed.

Lemma native_just_attrs_exact : just_attrs_exact (native_impl V).
Proof.
  intros b _ _. cbn [b_just_attrs native_impl items]. rewrite native_just_attrs_diag.
  unfold nitems. destruct (vis_blocks b) as [|ex r] eqn:E.
  - split; [|reflexivity]. intros _ it Hit. cbn [map] in Hit. rewrite app_nil_r in Hit.
    apply in_map_iff in Hit. destruct Hit as [a [Ea _]]. subst. discriminate.
  - split; [discriminate|]. intro H. exfalso.
    apply (H (item_of_block ex)); [|reflexivity].
    apply in_app_iff. right. cbn [map]. left. reflexivity.
Qed.

Theorem native_lawful : Lawful (native_impl V).
Proof.
  constructor.
  - exact native_items_ok.
  - exact native_exactly_once.
  - exact native_partial_reports.
  - exact native_keeps_rest.
  - exact native_reports_rest.
  - exact native_just_attrs.
Qed.

End NativeProofs.

(* ---- the former finding, now a law: JustAttributes on a remaining body --------
   Native body "a = 1; blk {}", PartialContent with schema {blk}: the block is
   returned; every visible item of the remainder is an attribute, Content {a}
   on it is clean, and (since hclsyntax fix 14e64b3) so is JustAttributes. *)
Local Open Scope string_scope.
Definition ja_witness_body : nbody unit :=
  {| nattrs := [{| aname := "a"; aval := tt |}];
     nblocks := [{| btype := "blk"; blabels := []; bbody := tt |}];
     nhA := []; nhB := [] |}.
Definition ja_witness_schema : schema := {| sattrs := []; sblocks := [("blk", 0)] |}.
Local Close Scope string_scope.

Lemma native_just_attrs_remain_clean :
  let '(c, r, d) := npartial ja_witness_schema ja_witness_body in
  nwf ja_witness_body /\ d = [] /\ List.length (cblocks c) = 1%nat /\
  snd (ncontent {| sattrs := [("a"%string, false)]; sblocks := [] |} r) = [] /\
  njust_attrs r = ([{| aname := "a"%string; aval := tt |}], []).
Proof.
  cbn. split; [|repeat split; reflexivity].
  unfold nwf. cbn. constructor; [intros []|constructor].
Qed.
