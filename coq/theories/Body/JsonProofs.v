(* Body/JsonProofs.v — C04: the JSON-syntax body (Body/Json.v,
   json/structure.go) satisfies the laws of Body/Laws.v; and the reason the
   two-step law needs disjoint NAMES (single namespace), with witness. *)
From HclV Require Import Base.Prelude Body.Laws Body.LawsProofs Body.Native Body.NativeProofs Body.Json.
From Coq Require Import String Permutation.
Open Scope list_scope.
Open Scope Z_scope.

Notation jattr_t := (attr jvalue).
Notation jitem := (item jvalue).

Lemma unpack_btype k : forall v t used bl,
  In bl (fst (unpack_block k v t used)) -> btype bl = t.
Proof.
  induction k as [|k IH]; intros v t used bl H.
  - cbn [unpack_block] in H. destruct v; cbn in H.
    + destruct H as [H|[]]. subst. reflexivity.
    + apply in_map_iff in H. destruct H as [av [E _]]. subst. reflexivity.
    + destruct H.
    + destruct H.
    + destruct H.
  - cbn [unpack_block] in H. destruct (collect_deep_attrs v) as [ms ds].
    destruct ms as [|m ms']; [destruct H|]. cbn [fst] in H.
    apply in_flat_map in H. destruct H as [m' [_ H]]. eapply IH. exact H.
Qed.

Definition vis (hid : list name) (m : name * jvalue) : bool := negb (mem (fst m) hid).

Lemma sel_attr_member s (m : name * jvalue) :
  sel_attr s (item_of_member m)
  = if mem (fst m) (attr_names s) then Some (jattr (fst m) (snd m)) else None.
Proof. reflexivity. Qed.

Lemma sel_block_member s (m : name * jvalue) :
  sel_block s (item_of_member m)
  = if mem (fst m) (attr_names s) then None
    else match wanted (fst m) (sblocks s) with
         | Some k => Some (unpack_block (Z.to_nat k) (snd m) (fst m) [])
         | None => None end.
Proof.
  unfold sel_block. rewrite sel_attr_member. destruct (mem (fst m) (attr_names s)); reflexivity.
Qed.

Lemma consumed_member s (m : name * jvalue) :
  consumed s (item_of_member m) = mem (fst m) (attr_names s) || mem (fst m) (block_names s).
Proof. reflexivity. Qed.

Lemma wanted_mem t l : mem t (map fst l) = match wanted t l with Some _ => true | None => false end.
Proof.
  destruct (wanted t l) eqn:W.
  - apply mem_In. eapply wanted_some. exact W.
  - apply mem_nIn. apply wanted_none. exact W.
Qed.

(* ---- the main loop of PartialContent ---------------------------------------- *)
Definition mits (hid : list name) (ms : list (name * jvalue)) : list jitem :=
  map item_of_member (filter (vis hid) ms).

Lemma mits_cons hid n v r :
  mits hid ((n, v) :: r) = if mem n hid then mits hid r else item_of_member (n, v) :: mits hid r.
Proof. unfold mits. cbn [filter]. unfold vis at 1. cbn [fst]. destruct (mem n hid); reflexivity. Qed.

Lemma jloop_spec s hid : forall ms got0 used0 got bs used ds,
  jloop s hid ms got0 used0 = (got, bs, used, ds) ->
  (forall n, mem n (map aname got0) = true -> mem n used0 = true) ->
  got = got0 ++ firsts_from (map aname got0) (sel_attrs s (mits hid ms)) /\
  bs = sel_blocks s (mits hid ms) /\
  (forall x, In x ds <->
     In x (dup_diags (dups_from (map aname got0) (sel_attrs s (mits hid ms)))) \/
     In x (block_diags s (mits hid ms))) /\
  (forall n, mem n used = mem n used0
     || existsb (fun it => String.eqb n (iname it) && consumed s it) (mits hid ms)).
Proof.
  induction ms as [|[n v] r IH]; intros got0 used0 got bs used ds E Inv.
  - cbn in E. inversion E; subst. cbn. rewrite app_nil_r.
    split; [reflexivity|]. split; [reflexivity|]. split.
    + intro x. tauto.
    + intro n. rewrite orb_false_r. reflexivity.
  - cbn [jloop] in E. rewrite mits_cons.
    destruct (mem n hid) eqn:H.
    { exact (IH _ _ _ _ _ _ E Inv). }
    set (its' := mits hid r) in *.
    set (it := item_of_member (n, v)).
    assert (sel_attrs s (it :: its') =
            (if mem n (attr_names s) then [jattr n v] else []) ++ sel_attrs s its') as SA.
    { unfold sel_attrs. cbn [flat_map]. unfold it. rewrite sel_attr_member. cbn [fst snd].
      destruct (mem n (attr_names s)); reflexivity. }
    assert (sel_blocks s (it :: its') =
            match sel_block s it with Some p => fst p | None => [] end ++ sel_blocks s its') as SB
      by reflexivity.
    assert (block_diags s (it :: its') =
            match sel_block s it with Some p => snd p | None => [] end ++ block_diags s its') as BD
      by reflexivity.
    assert (forall n', existsb (fun it0 => String.eqb n' (iname it0) && consumed s it0) (it :: its')
            = (String.eqb n' n && consumed s it)
              || existsb (fun it0 => String.eqb n' (iname it0) && consumed s it0) its') as EX
      by reflexivity.
    rewrite SA, SB, BD. unfold it in *. rewrite sel_block_member in *. cbn [fst snd] in *.
    destruct (mem n (attr_names s)) eqn:A.
    + (* attribute schema entry *)
      cbn [app]. cbn [firsts_from dups_from aname jattr].
      destruct (mem n (map aname got0)) eqn:D.
      * (* already defined: duplicate *)
        destruct (jloop s hid r got0 used0) as [[[g b'] u] ds'] eqn:R. inversion E; subst.
        destruct (IH _ _ _ _ _ _ R Inv) as [I1 [I2 [I3 I4]]]. fold its' in I1, I2, I3, I4.
        split; [exact I1|]. split; [exact I2|]. split.
        -- intro x. cbn [dup_diags map In aname jattr]. rewrite (I3 x). unfold dup_diags. tauto.
        -- intro n'. rewrite (I4 n'), EX, consumed_member. cbn [fst]. rewrite A. cbn [orb].
           rewrite andb_true_r.
           destruct (String.eqb n' n) eqn:En; [|reflexivity].
           apply String.eqb_eq in En. subst n'. rewrite (Inv n D). reflexivity.
      * (* first definition *)
        assert (forall n', mem n' (map aname (got0 ++ [jattr n v])) = true -> mem n' (n :: used0) = true) as Inv'.
        { intros n'. rewrite map_app, mem_app, mem_cons. cbn [map aname jattr mem existsb].
          rewrite orb_false_r. intro X. apply orb_true_iff in X. destruct X as [X|X].
          - rewrite (Inv n' X). apply orb_true_r.
          - rewrite X. reflexivity. }
        destruct (IH _ _ _ _ _ _ E Inv') as [I1 [I2 [I3 I4]]]. fold its' in I1, I2, I3, I4.
        assert (forall n', mem n' (map aname (got0 ++ [jattr n v])) = mem n' (n :: map aname got0)) as MX.
        { intro n'. rewrite map_app, mem_app, mem_cons. cbn [map aname jattr mem existsb].
          rewrite orb_false_r. apply orb_comm. }
        split; [|split; [exact I2|split]].
        -- rewrite I1, <- app_assoc. cbn [app]. f_equal. f_equal. apply firsts_from_ext. exact MX.
        -- intro x. rewrite (I3 x). rewrite (dups_from_ext _ _ _ _ MX). tauto.
        -- intro n'. rewrite (I4 n'), EX, consumed_member, mem_cons. cbn [fst]. rewrite A.
           cbn [orb]. rewrite andb_true_r.
           destruct (String.eqb n' n), (mem n' used0); reflexivity.
    + (* no attribute entry *)
      cbn [app]. pose proof (wanted_mem n (sblocks s)) as WM. fold (block_names s) in WM.
      destruct (wanted n (sblocks s)) as [k|] eqn:W.
      * destruct (unpack_block (Z.to_nat k) v n []) as [b1 d1] eqn:U.
        destruct (jloop s hid r got0 (n :: used0)) as [[[g b'] u] ds'] eqn:R. inversion E; subst.
        assert (forall n', mem n' (map aname got0) = true -> mem n' (n :: used0) = true) as Inv'.
        { intros n' X. rewrite mem_cons, (Inv n' X). apply orb_true_r. }
        destruct (IH _ _ _ _ _ _ R Inv') as [I1 [I2 [I3 I4]]]. fold its' in I1, I2, I3, I4.
        cbn [fst snd]. split; [exact I1|]. split; [rewrite I2; reflexivity|]. split.
        -- intro x. rewrite !in_app_iff, (I3 x). tauto.
        -- intro n'. rewrite (I4 n'), EX, consumed_member, mem_cons. cbn [fst]. rewrite A, WM.
           cbn [orb]. rewrite andb_true_r.
           destruct (String.eqb n' n), (mem n' used0); reflexivity.
      * destruct (IH _ _ _ _ _ _ E Inv) as [I1 [I2 [I3 I4]]]. fold its' in I1, I2, I3, I4.
        cbn [app]. split; [exact I1|]. split; [exact I2|]. split; [exact I3|].
        intro n'. rewrite (I4 n'), EX, consumed_member. cbn [fst]. rewrite A, WM.
        cbn [orb]. rewrite andb_false_r. reflexivity.
Qed.

Lemma jpartial_unfold s (b : jbody) :
  exists got bs used ds,
    jloop s (jhidden b) (jmembers b) [] (jhidden b) = (got, bs, used, ds) /\
    jpartial s b = ({| cattrs := got; cblocks := bs |}, {| jval := jval b; jhidden := used |},
                    snd (collect_deep_attrs (jval b)) ++ ds ++ missing s got).
Proof.
  unfold jpartial, jmembers. destruct (collect_deep_attrs (jval b)) as [ms ad]. cbn [fst snd].
  destruct (jloop s (jhidden b) ms [] (jhidden b)) as [[[got bs] used] ds].
  exists got, bs, used, ds. split; reflexivity.
Qed.

Lemma json_items_ok : items_ok json_impl.
Proof.
  intros b _. cbn [items json_impl]. unfold jitems. apply Forall_forall.
  intros it H. apply in_map_iff in H. destruct H as [m [E _]]. subst.
  intros f k bl H Hin. cbn in H. inversion H; subst. cbn [iname item_of_member].
  eapply unpack_btype. exact Hin.
Qed.

Lemma json_exactly_once : content_exactly_once json_impl.
Proof.
  intros s b _. cbn [b_partial json_impl items].
  destruct (jpartial_unfold s b) as [got [bs [used [ds [EL EP]]]]]. rewrite EP. cbn [fst snd cattrs cblocks].
  destruct (jloop_spec _ _ _ _ _ _ _ _ _ EL) as [I1 [I2 _]]; [intros n X; discriminate|].
  cbn [app map] in I1. unfold jitems. fold (vis (jhidden b)). fold (mits (jhidden b) (jmembers b)).
  split; [|split].
  - intro a. rewrite I1. reflexivity.
  - rewrite I1. apply NoDup_firsts_from.
  - exact I2.
Qed.

Lemma json_partial_reports : partial_reports json_impl.
Proof.
  intros s b _ _. cbn [b_partial json_impl items body_diags].
  destruct (jpartial_unfold s b) as [got [bs [used [ds [EL EP]]]]]. rewrite EP. cbn [cattrs].
  destruct (jloop_spec _ _ _ _ _ _ _ _ _ EL) as [_ [_ [I3 _]]]; [intros n X; discriminate|].
  unfold jitems. fold (vis (jhidden b)). fold (mits (jhidden b) (jmembers b)). intro x. rewrite !in_app_iff, (I3 x). unfold dups. cbn [map]. tauto.
Qed.

Lemma json_keeps_rest : partial_keeps_rest json_impl.
Proof.
  intros s b _. cbn [b_partial json_impl items wf body_diags].
  destruct (jpartial_unfold s b) as [got [bs [used [ds [EL EP]]]]]. rewrite EP. cbn [fst snd].
  destruct (jloop_spec _ _ _ _ _ _ _ _ _ EL) as [_ [_ [_ I4]]]; [intros n X; discriminate|].
  split; [exact Logic.I|]. split; [|reflexivity].
  unfold jitems, jmembers. cbn [jval jhidden]. fold (jmembers b).
  rewrite filter_map_comm, filter_filter_and. f_equal. apply filter_ext_in.
  intros m Hm. rewrite (I4 (fst m)). rewrite negb_orb.
  destruct (mem (fst m) (jhidden b)) eqn:Hh; cbn [negb andb]; [reflexivity|].
  - f_equal.
    destruct (consumed s (item_of_member m)) eqn:C.
    + apply existsb_exists. exists (item_of_member m). split.
      * apply in_map. apply filter_In. split; [exact Hm|]. unfold vis. rewrite Hh. reflexivity.
      * cbn [iname item_of_member]. rewrite String.eqb_refl, C. reflexivity.
    + destruct (existsb _ _) eqn:EX; [|reflexivity].
      apply existsb_exists in EX. destruct EX as [it [Hit X]].
      apply in_map_iff in Hit. destruct Hit as [m' [E _]]. subst it.
      apply andb_true_iff in X. destruct X as [X1 X2]. cbn [iname item_of_member] in X1.
      apply String.eqb_eq in X1. rewrite consumed_member in *. rewrite <- X1 in X2. congruence.
Qed.

Lemma jleftovers_rest (ms : list (name * jvalue)) hid :
  jleftovers ms hid = rest_diags (map item_of_member (filter (vis hid) ms)).
Proof.
  induction ms as [|m r IH]; [reflexivity|].
  cbn [jleftovers flat_map filter]. fold (jleftovers r hid). rewrite IH. unfold vis at 2.
  destruct (mem (fst m) hid); cbn [negb].
  - destruct (String.eqb (fst m) comment_name); reflexivity.
  - cbn [map]. unfold rest_diags. cbn [flat_map ireport item_of_member].
    destruct (String.eqb (fst m) comment_name); reflexivity.
Qed.

Lemma json_reports_rest : content_reports_rest json_impl.
Proof.
  intros s b _. cbn [b_partial b_content json_impl items body_diags]. unfold jcontent.
  destruct (jpartial s b) as [[c r] d] eqn:EP. cbn [fst snd].
  assert (jval r = jval b) as EV.
  { destruct (jpartial_unfold s b) as [got [bs [used [ds [_ EP']]]]]. rewrite EP in EP'.
    inversion EP'; subst. reflexivity. }
  destruct (collect_deep_attrs (jval b)) as [ms ad] eqn:EC. cbn [fst snd].
  split; [reflexivity|]. rewrite jleftovers_rest. unfold jitems, jmembers. rewrite EV, EC. cbn [fst].
  apply Permutation_refl.
Qed.

(* ---- JustAttributes --------------------------------------------------------- *)
Definition keep (hid : list name) (m : name * jvalue) : bool :=
  negb (String.eqb (fst m) comment_name) && negb (mem (fst m) hid).
Definition mattr (m : name * jvalue) : jattr_t := jattr (fst m) (snd m).

Lemma jja_loop_spec hid : forall ms got0 got ds,
  jja_loop hid ms got0 = (got, ds) ->
  got = got0 ++ firsts_from (map aname got0) (map mattr (filter (keep hid) ms)).
Proof.
  induction ms as [|[n v] r IH]; intros got0 got ds E.
  - cbn in E. inversion E; subst. cbn. rewrite app_nil_r. reflexivity.
  - cbn [jja_loop] in E. cbn [filter]. unfold keep at 1. cbn [fst].
    destruct (String.eqb n comment_name); cbn [negb andb]; [exact (IH _ _ _ E)|].
    destruct (mem n hid); cbn [negb]; [exact (IH _ _ _ E)|].
    cbn [map firsts_from mattr fst snd aname jattr].
    destruct (mem n (map aname got0)) eqn:D.
    + destruct (jja_loop hid r got0) as [g ds'] eqn:R. inversion E; subst. exact (IH _ _ _ R).
    + rewrite (IH _ _ _ E), <- app_assoc. cbn [app]. f_equal. f_equal. apply firsts_from_ext.
      intro n'. rewrite map_app, mem_app, mem_cons. cbn [map aname jattr mem existsb].
      rewrite orb_false_r. apply orb_comm.
Qed.

Lemma all_attrs_members (l : list (name * jvalue)) :
  all_attrs (map item_of_member l) = map mattr l.
Proof.
  induction l as [|m r IH]; [reflexivity|]. unfold all_attrs in *. cbn [map flat_map]. rewrite IH.
  reflexivity.
Qed.

Lemma json_just_attrs : just_attrs_visible json_impl.
Proof.
  intros b _. cbn [b_just_attrs json_impl items]. unfold jjust_attrs.
  destruct (jval b) as [ms| | | |] eqn:EV;
    try (split; [intros a []|split; [constructor|discriminate]]).
  destruct (jja_loop (jhidden b) ms []) as [l d] eqn:EL.
  pose proof (jja_loop_spec _ _ _ _ _ EL) as S. cbn [app map] in S.
  assert (jitems b = map item_of_member (filter (vis (jhidden b)) ms)) as EI.
  { unfold jitems, jmembers. rewrite EV. reflexivity. }
  assert (filter (keep (jhidden b)) ms
          = filter (fun m => negb (String.eqb (fst m) comment_name)) (filter (vis (jhidden b)) ms)) as EK.
  { rewrite filter_filter_and. apply filter_ext. intro m. unfold keep, vis. apply andb_comm. }
  assert (map mattr (filter (keep (jhidden b)) ms)
          = filter (fun a => negb (String.eqb (aname a) comment_name)) (all_attrs (jitems b))) as EM.
  { rewrite EI, all_attrs_members, EK, filter_map_comm. reflexivity. }
  split; [|split].
  - intros a Ha. rewrite S, EM in Ha. unfold firsts.
    rewrite (firsts_from_filter _ (fun n => negb (String.eqb n comment_name))) in Ha.
    apply filter_In in Ha. destruct Ha as [Ha _]. apply In_firsts_from in Ha. tauto.
  - rewrite S. apply NoDup_firsts_from.
  - intros _ it v Hit Hv Hr. rewrite S. apply names_firsts_from. split; [|reflexivity].
    rewrite EI in Hit. apply in_map_iff in Hit. destruct Hit as [m [E Hm]]. subst it.
    cbn [iname item_of_member]. apply in_map_iff. exists (mattr m). split; [reflexivity|].
    apply in_map. rewrite EK. apply filter_In. split; [exact Hm|].
    cbn [ireport item_of_member] in Hr. destruct (String.eqb (fst m) comment_name); [congruence|reflexivity].
Qed.

Theorem json_lawful : Lawful json_impl.
Proof.
  constructor.
  - exact json_items_ok.
  - exact json_exactly_once.
  - exact json_partial_reports.
  - exact json_keeps_rest.
  - exact json_reports_rest.
  - exact json_just_attrs.
Qed.

(* ---- why the two-step law asks for disjoint NAMES ------------------------------
   In the JSON syntax attributes and blocks share one namespace: a split that
   names "x" as a block type in part 1 and as an attribute in part 2 is
   disjoint per namespace, yet the two steps do not add up to the one step
   (one step: the attribute entry wins and "x" is an attribute; two steps: "x"
   is unpacked as a block and then hidden). *)
Local Open Scope string_scope.
Definition ns_body : jbody :=
  {| jval := JObj [("x", JObj [("l", JObj [])])]; jhidden := [] |}.
Definition ns_s1 : schema := {| sattrs := []; sblocks := [("x", 1)] |}.
Definition ns_s2 : schema := {| sattrs := [("x", false)]; sblocks := [] |}.
Local Close Scope string_scope.

Theorem json_two_step_per_namespace_refuted :
  schema_ok ns_s1 /\ schema_ok ns_s2 /\ disjoint_ns ns_s1 ns_s2 /\
  let '(c1, r1, d1) := jpartial ns_s1 ns_body in
  let '(c2, d2) := jcontent ns_s2 r1 in
  let '(c, d) := jcontent (union ns_s1 ns_s2) ns_body in
  d1 = [] /\ d2 = [] /\ d = [] /\
  List.length (cattrs c) = 1%nat /\ cattrs c1 ++ cattrs c2 = [] /\
  List.length (cblocks c) = 0%nat /\ List.length (cblocks c1 ++ cblocks c2) = 1%nat.
Proof.
  split; [constructor|]. split; [repeat constructor; intros []|]. split.
  - split; intros n H; cbn in *; tauto.
  - vm_compute. repeat split; reflexivity.
Qed.
