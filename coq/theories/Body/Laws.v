(* Body/Laws.v — C04: shared vocabulary of the hcl.Body models, the interface
   every Body implementation is modelled against, the abstraction of a body as
   a list of visible source items, and the LAWS of schema-driven processing,
   stated once against that interface.  Definitions only (no proofs).

   Go anchors: /repo/schema.go (BodySchema), /repo/structure.go (Body,
   BodyContent), spec.md "Schema-driven Processing" / "Partial Processing of
   Body Content".

   Diagnostics are projected to (kind, name): the summary class and the
   attribute name / block type they talk about (positions and wording are not
   part of C04). All diagnostics modelled here have severity Error. *)
From HclV Require Import Base.Prelude.
From Coq Require Import String Permutation.
Open Scope list_scope.
Open Scope Z_scope.

Notation name := string (only parsing).

(* membership in a Go map[string]... used as a set *)
Definition mem (n : name) (l : list name) : bool := existsb (String.eqb n) l.

(* ---- diagnostics ---------------------------------------------------------- *)
Inductive dkind :=
| MissingRequired     (* "Missing required argument" *)
| ExtraLabel          (* "Extraneous label for T" *)
| MissingLabel        (* "Missing L for T" *)
| UnsupportedAttr     (* "Unsupported argument" *)
| UnsupportedBlock    (* "Unsupported block type" *)
| ExtraneousProp      (* "Extraneous JSON object property" *)
| Duplicate           (* "Duplicate argument" / "Duplicate attribute definition" *)
| MissingBlockLabel   (* "Missing block label" (JSON) *)
| BadType             (* "Incorrect JSON value type" (name = "") *)
| UnexpectedBlock     (* "Unexpected "T" block" (native JustAttributes) *)
| ExtraDynLabel       (* "Extraneous dynamic block label" *)
| InsufficientDynLabel(* "Insufficient dynamic block labels" *)
| DynOther.           (* any other dynblock spec error *)

Definition diag := (dkind * name)%type.

(* ---- schema (schema.go) --------------------------------------------------- *)
(* AttributeSchema = (Name, Required); BlockHeaderSchema = (Type, len LabelNames) *)
Record schema := { sattrs : list (name * bool); sblocks : list (name * Z) }.

Definition attr_names (s : schema) : list name := map fst (sattrs s).
Definition block_names (s : schema) : list name := map fst (sblocks s).
Definition schema_names (s : schema) : list name := attr_names s ++ block_names s.

Definition union (s1 s2 : schema) : schema :=
  {| sattrs := sattrs s1 ++ sattrs s2; sblocks := sblocks s1 ++ sblocks s2 |}.
Definition empty_schema : schema := {| sattrs := []; sblocks := [] |}.
Definition union_all (l : list schema) : schema := fold_right union empty_schema l.

(* disjoint NAMES (attribute names and block types together: the JSON syntax
   has a single namespace) *)
Definition disjoint (s1 s2 : schema) : Prop :=
  forall n, In n (schema_names s1) -> ~ In n (schema_names s2).
(* the weaker, per-namespace notion (enough for the native syntax) *)
Definition disjoint_ns (s1 s2 : schema) : Prop :=
  (forall n, In n (attr_names s1) -> ~ In n (attr_names s2)) /\
  (forall n, In n (block_names s1) -> ~ In n (block_names s2)).
Fixpoint pairwise_disjoint (l : list schema) : Prop :=
  match l with
  | [] => True
  | s :: r => Forall (disjoint s) r /\ pairwise_disjoint r
  end.
Definition schema_ok (s : schema) : Prop := NoDup (attr_names s).

(* Go builds map[Type]BlockHeaderSchema from the schema slice: the LAST entry
   for a type wins (hclsyntax/structure.go:164, json/structure.go:106). *)
Fixpoint wanted (t : name) (l : list (name * Z)) : option Z :=
  match l with
  | [] => None
  | (t', k) :: r =>
      match wanted t r with
      | Some k' => Some k'
      | None => if String.eqb t t' then Some k else None
      end
  end.

(* ---- body content (structure.go: BodyContent, Attribute, Block) ----------- *)
(* V: the payload carried opaquely (attribute expressions, child bodies). *)
Section Payload.
Variable V : Type.

Record attr := { aname : name; aval : V }.
Record block := { btype : name; blabels : list name; bbody : V }.
Record content := { cattrs : list attr; cblocks : list block }.

Definition of_type (t : name) (l : list block) : list block :=
  filter (fun bl => String.eqb t (btype bl)) l.

(* ---- abstraction: one visible source item of a body ---------------------- *)
(* iattr  = Some v : the item can be selected by an attribute schema, value v
   iblock = Some f : the item can be selected by a block-header schema with k
                     labels; f k = the blocks it denotes then, and the
                     diagnostics it causes (label mismatch, bad JSON type)
   ireport         : what exhaustive processing says if no schema entry
                     selects it ([] only for JSON "//" comment properties) *)
Record item := {
  iname : name;
  iattr : option V;
  iblock : option (Z -> list block * list diag);
  ireport : list diag
}.

(* all blocks denoted by an item carry the item's name as type *)
Definition item_ok (it : item) : Prop :=
  forall f k bl, iblock it = Some f -> In bl (fst (f k)) -> btype bl = iname it.

Definition is_some {A} (o : option A) : bool := match o with Some _ => true | None => false end.

Definition sel_attr (s : schema) (it : item) : option attr :=
  match iattr it with
  | Some v => if mem (iname it) (attr_names s) then Some {| aname := iname it; aval := v |} else None
  | None => None
  end.

(* an attribute schema entry takes precedence over a block entry of the same
   name (json/structure.go:116/136) *)
Definition sel_block (s : schema) (it : item) : option (list block * list diag) :=
  match sel_attr s it with
  | Some _ => None
  | None =>
      match iblock it, wanted (iname it) (sblocks s) with
      | Some f, Some k => Some (f k)
      | _, _ => None
      end
  end.

(* consumed = hidden in the remaining body after a pass with schema s *)
Definition consumed (s : schema) (it : item) : bool :=
  (is_some (iattr it) && mem (iname it) (attr_names s))
  || (is_some (iblock it) && mem (iname it) (block_names s)).

Definition all_attrs (its : list item) : list attr :=
  flat_map (fun it => match iattr it with
                      | Some v => [{| aname := iname it; aval := v |}]
                      | None => [] end) its.
Definition sel_attrs (s : schema) (its : list item) : list attr :=
  flat_map (fun it => match sel_attr s it with Some a => [a] | None => [] end) its.
Definition sel_blocks (s : schema) (its : list item) : list block :=
  flat_map (fun it => match sel_block s it with Some p => fst p | None => [] end) its.
Definition block_diags (s : schema) (its : list item) : list diag :=
  flat_map (fun it => match sel_block s it with Some p => snd p | None => [] end) its.
Definition rest_diags (its : list item) : list diag := flat_map ireport its.

(* first definition of every name (the one that is returned) / the later ones
   (reported as duplicates); [seen] = names already defined *)
Fixpoint firsts_from (seen : list name) (l : list attr) : list attr :=
  match l with
  | [] => []
  | a :: r => if mem (aname a) seen then firsts_from seen r
              else a :: firsts_from (aname a :: seen) r
  end.
Fixpoint dups_from (seen : list name) (l : list attr) : list attr :=
  match l with
  | [] => []
  | a :: r => if mem (aname a) seen then a :: dups_from seen r
              else dups_from (aname a :: seen) r
  end.
Definition firsts := firsts_from [].
Definition dups := dups_from [].
Definition dup_diags (l : list attr) : list diag := map (fun a => (Duplicate, aname a)) l.

(* required attributes that did not make it into the result *)
Definition missing (s : schema) (got : list attr) : list diag :=
  flat_map (fun e => if snd e && negb (mem (fst e) (map aname got))
                     then [(MissingRequired, fst e)] else []) (sattrs s).

(* ---- the interface --------------------------------------------------------- *)
(* B: the Go type implementing hcl.Body (with its hidden-name state). *)
Record BodyImpl (B : Type) := {
  (* the three methods of hcl.Body observed by C04 *)
  b_partial : schema -> B -> content * B * list diag;   (* PartialContent *)
  b_content : schema -> B -> content * list diag;       (* Content *)
  b_just_attrs : B -> list attr * list diag;            (* JustAttributes *)
  (* abstraction *)
  wf : B -> Prop;                 (* invariants established by the parser *)
  items : B -> list item;         (* visible (not hidden) items, source order *)
  body_diags : B -> list diag     (* reported by every pass, whatever the schema *)
}.

Arguments b_partial {B}. Arguments b_content {B}. Arguments b_just_attrs {B}.
Arguments wf {B}. Arguments items {B}. Arguments body_diags {B}.

Definition set_eq {A} (l1 l2 : list A) : Prop := forall x, In x l1 <-> In x l2.

Section Laws.
Context {B : Type} (I : BodyImpl B).

(* content_exactly_once — for every schema and body: the attributes returned
   are exactly the FIRST visible definitions of the names the schema asks for
   (each once), the blocks returned are exactly the blocks denoted by the
   visible items whose type the schema asks for and whose labels fit, in
   source order; nothing else is returned. *)
Definition content_exactly_once : Prop :=
  forall s b, wf I b ->
    let c := fst (fst (b_partial I s b)) in
    (forall a, In a (cattrs c) <-> In a (firsts (sel_attrs s (items I b)))) /\
    NoDup (map aname (cattrs c)) /\
    cblocks c = sel_blocks s (items I b).

(* the diagnostics of a partial pass: those of the body itself, one per
   duplicate definition, those of the selected blocks (label count mismatch:
   the block is dropped and reported), one per missing required attribute *)
Definition partial_reports : Prop :=
  forall s b, wf I b -> schema_ok s ->
    let '(c, _, d) := b_partial I s b in
    set_eq d (body_diags I b ++ dup_diags (dups (sel_attrs s (items I b)))
              ++ block_diags s (items I b) ++ missing s (cattrs c)).

(* partial_keeps_rest — the remaining body's visible items are the original
   ones minus the consumed ones, unmodified and in the same order. *)
Definition partial_keeps_rest : Prop :=
  forall s b, wf I b ->
    let r := snd (fst (b_partial I s b)) in
    wf I r /\
    items I r = filter (fun it => negb (consumed s it)) (items I b) /\
    body_diags I r = body_diags I b.

(* content_reports_rest — exhaustive processing returns what partial
   processing returns and reports, in addition, exactly one [ireport] per
   visible item that was not consumed. *)
Definition content_reports_rest : Prop :=
  forall s b, wf I b ->
    let '(c, r, d) := b_partial I s b in
    fst (b_content I s b) = c /\
    Permutation (snd (b_content I s b)) (d ++ body_diags I b ++ rest_diags (items I r)).

(* JustAttributes returns only visible attribute-capable items (a consumed
   item never comes back), each name once; when it reports nothing it returns
   all of them (comment properties excepted). *)
Definition just_attrs_visible : Prop :=
  forall b, wf I b ->
    let '(l, d) := b_just_attrs I b in
    (forall a, In a l -> In a (all_attrs (items I b))) /\
    NoDup (map aname l) /\
    (d = [] -> forall it v, In it (items I b) -> iattr it = Some v -> ireport it <> [] ->
                  In (iname it) (map aname l)).

(* The exact form, for syntaxes that can tell blocks from attributes (native
   bodies and merges of them; NOT the JSON syntax, whose JustAttributes also
   refuses array-of-objects bodies): with unique attribute names, a diagnostic
   is reported iff some visible item is a block. In particular JustAttributes
   of a remaining body never reports an item that was already consumed. *)
Definition just_attrs_exact : Prop :=
  forall b, wf I b -> NoDup (map aname (all_attrs (items I b))) ->
    (snd (b_just_attrs I b) = [] <-> forall it, In it (items I b) -> iattr it <> None).

Definition items_ok : Prop := forall b, wf I b -> Forall item_ok (items I b).

Record Lawful : Prop := {
  law_items_ok : items_ok;
  law_exactly_once : content_exactly_once;
  law_partial_reports : partial_reports;
  law_keeps_rest : partial_keeps_rest;
  law_reports_rest : content_reports_rest;
  law_just_attrs : just_attrs_visible
}.

(* ---- the two-step law of spec.md ------------------------------------------ *)
(* "Processing a body in two steps — first partial processing of a source body,
   then exhaustive processing of the returned body — is equivalent to
   single-step processing with a schema that is the union of the schemata." *)
Definition two_step_equiv : Prop :=
  forall s1 s2 b, wf I b -> schema_ok s1 -> schema_ok s2 -> disjoint s1 s2 ->
    let '(c1, r1, d1) := b_partial I s1 b in
    let '(c2, d2) := b_content I s2 r1 in
    let '(c, d) := b_content I (union s1 s2) b in
    set_eq (cattrs c) (cattrs c1 ++ cattrs c2) /\
    NoDup (map aname (cattrs c1 ++ cattrs c2)) /\
    (forall t, of_type t (cblocks c) = of_type t (cblocks c1) ++ of_type t (cblocks c2)) /\
    set_eq d (d1 ++ d2) /\
    (d = [] <-> d1 ++ d2 = []).

(* k-step: partial passes with parts s1..s(k-1), then an exhaustive pass with
   the last part; results accumulated. *)
Fixpoint run_steps (parts : list schema) (last : schema) (b : B)
  : list attr * list block * list diag :=
  match parts with
  | [] => let '(c, d) := b_content I last b in (cattrs c, cblocks c, d)
  | s :: rest =>
      let '(c, r, d) := b_partial I s b in
      let '(a', b', d') := run_steps rest last r in
      (cattrs c ++ a', cblocks c ++ b', d ++ d')
  end.

Definition k_step_equiv : Prop :=
  forall parts last b, wf I b ->
    Forall schema_ok (parts ++ [last]) -> pairwise_disjoint (parts ++ [last]) ->
    let '(ak, bk, dk) := run_steps parts last b in
    let '(c, d) := b_content I (union_all (parts ++ [last])) b in
    set_eq (cattrs c) ak /\ NoDup (map aname ak) /\
    (forall t, of_type t (cblocks c) = of_type t bk) /\
    set_eq d dk /\ (d = [] <-> dk = []).

End Laws.
End Payload.

Arguments aname {V}. Arguments aval {V}.
Arguments btype {V}. Arguments blabels {V}. Arguments bbody {V}.
Arguments cattrs {V}. Arguments cblocks {V}.
Arguments iname {V}. Arguments iattr {V}. Arguments iblock {V}. Arguments ireport {V}.
Arguments b_partial {V B}. Arguments b_content {V B}. Arguments b_just_attrs {V B}.
Arguments wf {V B}. Arguments items {V B}. Arguments body_diags {V B}.
Arguments of_type {V}. Arguments sel_attr {V}. Arguments sel_block {V}.
Arguments consumed {V}. Arguments all_attrs {V}. Arguments sel_attrs {V}.
Arguments sel_blocks {V}. Arguments block_diags {V}. Arguments rest_diags {V}.
Arguments firsts_from {V}. Arguments dups_from {V}. Arguments firsts {V}. Arguments dups {V}.
Arguments dup_diags {V}. Arguments missing {V}. Arguments item_ok {V}.
Arguments is_some {A}.
Arguments Lawful {V B}. Arguments two_step_equiv {V B}. Arguments k_step_equiv {V B}.
Arguments run_steps {V B}. Arguments content_exactly_once {V B}. Arguments partial_reports {V B}.
Arguments partial_keeps_rest {V B}. Arguments content_reports_rest {V B}.
Arguments just_attrs_visible {V B}. Arguments items_ok {V B}. Arguments just_attrs_exact {V B}.
