(* Body/DecBridge.v — C03: from the C04 body interface (Body/Laws.v [BodyImpl])
   to the abstract body of the hcldec model (Dec/Decode.v [abody]), and
   [decode_respects_content_equiv].

   The two models do not compose directly: Dec/Decode.v hard-wires the
   native-syntax Content into [decode] (its [abody] IS a native body).  hcldec
   (hcldec/decode.go, spec.go) observes a body only through Content /
   PartialContent with the implied schema of the spec at hand, JustAttributes
   (BlockAttrsSpec), and the UnknownBody / MarkedBody type assertions, which
   neither json.body nor hclsyntax.Body implement.  So, for a body b of ANY
   implementation and a schema tree S:

     [abody_of X S b]   the abstract body made of what Content (JustAttributes
                        at SJust) returns for b at every level of S: the
                        attributes named by the schema, already evaluated
                        (value, error-ness), the blocks with their labels and,
                        recursively, their bodies under the child tree;
     [tree_clean X S b] no level reported a diagnostic.

   BRIDGING ASSUMPTION (not used by any proof; it is what makes the theorems
   below speak about hcldec; it is checked on the real code by the direct
   oracle of harness/cmd/c03): for a spec s whose implied schema at every level
   is S,  hcldec.Decode(b, s, ctx)  returns the value
   fst (decode s (abody_of X S b) ctx)  and has errors iff
   [decode_errs X S s b ctx], i.e. the model reports an error or some level of
   b reported a diagnostic.  Attribute expressions are literals (their value
   does not depend on ctx; JSON strings are assumed template-free when ctx is
   not nil). *)
From HclV Require Import Base.Prelude Cty.Values Dec.Spec Dec.Decode.
From HclV Require Import Body.Laws Body.Native Body.Json Body.JsonEncodes Body.JsonEncodesProofs.
From Coq Require Import String.
Open Scope list_scope.
Open Scope Z_scope.

Section Bridge.
Context {V B : Type} (X : BodySem V B).

Definition aval_of (v : V) : aexpr := AVal (fst (bs_eval X v)) (snd (bs_eval X v)).

Fixpoint abody_of (S : stree) (b : B) : abody :=
  match S with
  | SJust =>
      ABody (map (fun a => (bytes_of (aname a), aval_of (aval a)))
                 (fst (b_just_attrs (bs_impl X) b)))
            [] false []
  | SNode sa sb kid =>
      let c := fst (b_content (bs_impl X) (level_schema_of sa sb) b) in
      ABody (flat_map (fun e => match find_named (fst e) (cattrs c) with
                                | Some a => [(bytes_of (fst e), aval_of (aval a))]
                                | None => [] end) sa)
            (map (fun bl => (bytes_of (Laws.btype bl), map bytes_of (Laws.blabels bl),
                             abody_of (kid (Laws.btype bl)) (bs_child X (Laws.bbody bl))))
                 (cblocks c))
            false []
  end.

Fixpoint tree_clean (S : stree) (b : B) : Prop :=
  match S with
  | SJust => snd (b_just_attrs (bs_impl X) b) = []
  | SNode sa sb kid =>
      snd (b_content (bs_impl X) (level_schema_of sa sb) b) = [] /\
      Forall (fun bl => tree_clean (kid (Laws.btype bl)) (bs_child X (Laws.bbody bl)))
             (cblocks (fst (b_content (bs_impl X) (level_schema_of sa sb) b)))
  end.

(* PartialDecode: PartialContent at the top level only *)
Definition tree_clean_partial (S : stree) (b : B) : Prop :=
  match S with
  | SJust => snd (b_just_attrs (bs_impl X) b) = []
  | SNode sa sb kid =>
      snd (b_partial (bs_impl X) (level_schema_of sa sb) b) = [] /\
      Forall (fun bl => tree_clean (kid (Laws.btype bl)) (bs_child X (Laws.bbody bl)))
             (cblocks (fst (fst (b_partial (bs_impl X) (level_schema_of sa sb) b))))
  end.

(* hcldec.Decode / PartialDecode of b, per the bridging assumption *)
Definition decode_val (S : stree) (s : spec) (b : B) (c : Impl.ctx) : val :=
  fst (decode s (abody_of S b) c).
Definition decode_errs (S : stree) (s : spec) (b : B) (c : Impl.ctx) : Prop :=
  has_err (snd (decode s (abody_of S b) c)) = true \/ ~ tree_clean S b.
Definition partial_decode_val (S : stree) (s : spec) (b : B) (c : Impl.ctx) : val :=
  fst (partial_decode s (abody_of S b) c).
Definition partial_decode_errs (S : stree) (s : spec) (b : B) (c : Impl.ctx) : Prop :=
  has_err (snd (partial_decode s (abody_of S b) c)) = true \/ ~ tree_clean_partial S b.
End Bridge.

(* ---- list helpers -------------------------------------------------------------------- *)
Lemma Forall2_map_eq {A B C} (R : A -> B -> Prop) (f : A -> C) (g : B -> C) l l' :
  Forall2 R l l' -> (forall a b, R a b -> f a = g b) -> map f l = map g l'.
Proof. intros H E. induction H; cbn [map]; [reflexivity|]. f_equal; auto. Qed.

Lemma Forall2_Forall_iff {A B} (R : A -> B -> Prop) (P : A -> Prop) (Q : B -> Prop) l l' :
  Forall2 R l l' -> (forall a b, R a b -> (P a <-> Q b)) -> (Forall P l <-> Forall Q l').
Proof.
  intros H E. induction H as [|a b l l' Hab _ IH].
  - split; constructor.
  - split; intro F; inversion F; subst; constructor; try (apply (E a b Hab); assumption); apply IH; assumption.
Qed.

(* ==== decode_respects_content_equiv ====================================================== *)
Section Respects.
Context {V1 B1 V2 B2 : Type} (X1 : BodySem V1 B1) (X2 : BodySem V2 B2).

Lemma content_equiv_abody : forall S b1 b2,
  content_equiv X1 X2 S b1 b2 ->
  abody_of X1 S b1 = abody_of X2 S b2 /\
  (tree_clean X1 S b1 <-> tree_clean X2 S b2) /\
  (tree_clean_partial X1 S b1 <-> tree_clean_partial X2 S b2).
Proof.
  induction S as [|sa sb kid IH]; intros b1 b2 H.
  - inversion H as [b1' b2' HA HD|]; subst. cbn [abody_of tree_clean tree_clean_partial].
    split; [|tauto]. f_equal. unfold attr_lists_equiv in HA.
    revert HA. generalize (fst (b_just_attrs (bs_impl X1) b1)) (fst (b_just_attrs (bs_impl X2) b2)).
    induction l as [|a r IHl]; intros l' HA; destruct l' as [|a' r']; try discriminate; [reflexivity|].
    cbn [map] in *. inversion HA as [[E1 E2 E3]]. unfold aval_of. rewrite E1, E2. f_equal. exact (IHl _ E3).
  - inversion H as [|sa' sb' kid' b1' b2' s c1 c2 HA HB HP1 HP2 HD HDP]; subst.
    subst s c1 c2.
    set (s := level_schema_of sa sb) in *.
    set (c1 := fst (b_content (bs_impl X1) s b1)) in *.
    set (c2 := fst (b_content (bs_impl X2) s b2)) in *.
    assert (forall bl1 bl2,
              Laws.btype bl1 = Laws.btype bl2 /\ Laws.blabels bl1 = Laws.blabels bl2 /\
              content_equiv X1 X2 (kid (Laws.btype bl1)) (bs_child X1 (Laws.bbody bl1)) (bs_child X2 (Laws.bbody bl2)) ->
              abody_of X1 (kid (Laws.btype bl1)) (bs_child X1 (Laws.bbody bl1))
              = abody_of X2 (kid (Laws.btype bl2)) (bs_child X2 (Laws.bbody bl2)) /\
              (tree_clean X1 (kid (Laws.btype bl1)) (bs_child X1 (Laws.bbody bl1))
               <-> tree_clean X2 (kid (Laws.btype bl2)) (bs_child X2 (Laws.bbody bl2)))) as KID.
    { intros bl1 bl2 [E1 [E2 E3]]. rewrite <- E1. destruct (IH _ _ _ E3) as [I1 [I2 _]]. split; assumption. }
    split; [|split].
    + cbn [abody_of]. fold s. fold c1. fold c2. f_equal.
      * apply flat_map_ext. intros [n req]. cbn [fst]. pose proof (HA n) as E.
        destruct (find_named n (cattrs c1)) as [a1|], (find_named n (cattrs c2)) as [a2|];
          cbn [option_map] in E; try discriminate; [|reflexivity].
        inversion E as [E']. unfold aval_of. rewrite E'. reflexivity.
      * eapply Forall2_map_eq; [exact HB|]. intros bl1 bl2 R. cbv beta in R.
        destruct (KID bl1 bl2 R) as [K1 _]. destruct R as [E1 [E2 _]]. rewrite K1, E1, E2. reflexivity.
    + cbn [tree_clean]. fold s. fold c1. fold c2.
      assert (Forall (fun bl => tree_clean X1 (kid (Laws.btype bl)) (bs_child X1 (Laws.bbody bl))) (cblocks c1)
              <-> Forall (fun bl => tree_clean X2 (kid (Laws.btype bl)) (bs_child X2 (Laws.bbody bl))) (cblocks c2)) as FF.
      { eapply Forall2_Forall_iff; [exact HB|]. intros bl1 bl2 R. cbv beta in R. exact (proj2 (KID bl1 bl2 R)). }
      tauto.
    + cbn [tree_clean_partial]. fold s. rewrite HP1, HP2.
      assert (Forall (fun bl => tree_clean X1 (kid (Laws.btype bl)) (bs_child X1 (Laws.bbody bl))) (cblocks c1)
              <-> Forall (fun bl => tree_clean X2 (kid (Laws.btype bl)) (bs_child X2 (Laws.bbody bl))) (cblocks c2)) as FF.
      { eapply Forall2_Forall_iff; [exact HB|]. intros bl1 bl2 R. cbv beta in R. exact (proj2 (KID bl1 bl2 R)). }
      tauto.
Qed.

(* Bodies that are content_equiv under the schema tree decode to equal values
   with equal error-ness, under EVERY spec and context (Decode and
   PartialDecode), given the bridging assumption in the header. *)
Theorem decode_respects_content_equiv S b1 b2 :
  content_equiv X1 X2 S b1 b2 ->
  forall (s : spec) (c : Impl.ctx),
    decode_val X1 S s b1 c = decode_val X2 S s b2 c /\
    (decode_errs X1 S s b1 c <-> decode_errs X2 S s b2 c) /\
    partial_decode_val X1 S s b1 c = partial_decode_val X2 S s b2 c /\
    (partial_decode_errs X1 S s b1 c <-> partial_decode_errs X2 S s b2 c).
Proof.
  intros H s c. destruct (content_equiv_abody S b1 b2 H) as [EA [EC EP]].
  unfold decode_val, decode_errs, partial_decode_val, partial_decode_errs. rewrite EA.
  repeat split; try reflexivity; tauto.
Qed.
End Respects.

(* ==== json_native_decode_equal ============================================================ *)
Corollary json_native_decode_equal S c j :
  json_encodes S c j ->
  forall (s : spec) (ctx : Impl.ctx),
    decode_val json_sem S s (jroot j) ctx = decode_val native_sem S s (native_of c) ctx /\
    (decode_errs json_sem S s (jroot j) ctx <-> decode_errs native_sem S s (native_of c) ctx) /\
    partial_decode_val json_sem S s (jroot j) ctx = partial_decode_val native_sem S s (native_of c) ctx /\
    (partial_decode_errs json_sem S s (jroot j) ctx <-> partial_decode_errs native_sem S s (native_of c) ctx).
Proof.
  intro H. apply decode_respects_content_equiv. apply json_native_content_equiv. exact H.
Qed.
