(* Body/MergedProofs.v — C04: hcl.MergeBodies preserves the laws
   (merged_preserves_laws): if the children's implementation is lawful, so is
   the merged body; likewise for the sum of two implementations (children of
   different syntaxes). Hence merges of native and JSON files are lawful. *)
From HclV Require Import Base.Prelude Body.Laws Body.LawsProofs Body.Native Body.NativeProofs
  Body.Json Body.JsonProofs Body.Merged.
From Coq Require Import String Permutation.
Open Scope list_scope.
Open Scope Z_scope.

Definition dkind_dec (a b : dkind) : {a = b} + {a <> b}.
Proof. decide equality. Defined.
Definition diag_dec (a b : diag) : {a = b} + {a <> b}.
Proof. decide equality; [apply string_dec|apply dkind_dec]. Defined.

Lemma filter_flat_map {A B} (p : B -> bool) (f : A -> list B) l :
  filter p (flat_map f l) = flat_map (fun x => filter p (f x)) l.
Proof. induction l as [|a r IH]; simpl; [reflexivity|]. rewrite filter_app, IH. reflexivity. Qed.

Section MergedProofs.
Variable V : Type.
Notation attr := (attr V).
Notation item := (item V).

(* ---- nonreq ---------------------------------------------------------------- *)
Lemma attr_names_nonreq s : attr_names (nonreq s) = attr_names s.
Proof. unfold attr_names, nonreq. cbn [sattrs]. rewrite map_map. reflexivity. Qed.

Lemma sel_attr_nonreq s (it : item) : sel_attr (nonreq s) it = sel_attr s it.
Proof. unfold sel_attr. rewrite attr_names_nonreq. reflexivity. Qed.
Lemma sel_block_nonreq s (it : item) : sel_block (nonreq s) it = sel_block s it.
Proof. unfold sel_block. rewrite sel_attr_nonreq. reflexivity. Qed.
Lemma consumed_nonreq s (it : item) : consumed (nonreq s) it = consumed s it.
Proof. unfold consumed. rewrite attr_names_nonreq. reflexivity. Qed.
Lemma sel_attrs_nonreq s (its : list item) : sel_attrs (nonreq s) its = sel_attrs s its.
Proof. unfold sel_attrs. apply flat_map_ext. intro it. rewrite sel_attr_nonreq. reflexivity. Qed.
Lemma sel_blocks_nonreq s (its : list item) : sel_blocks (nonreq s) its = sel_blocks s its.
Proof. unfold sel_blocks. apply flat_map_ext. intro it. rewrite sel_block_nonreq. reflexivity. Qed.
Lemma block_diags_nonreq s (its : list item) : block_diags (nonreq s) its = block_diags s its.
Proof. unfold block_diags. apply flat_map_ext. intro it. rewrite sel_block_nonreq. reflexivity. Qed.
Lemma missing_nonreq s (got : list attr) : missing (nonreq s) got = [].
Proof.
  unfold missing, nonreq. cbn [sattrs]. induction (sattrs s) as [|e r IH]; [reflexivity|].
  cbn [map flat_map fst snd andb app]. exact IH.
Qed.
Lemma schema_ok_nonreq s : schema_ok s -> schema_ok (nonreq s).
Proof. unfold schema_ok. rewrite attr_names_nonreq. auto. Qed.

(* ---- merge_attrs ------------------------------------------------------------ *)
Lemma merge_attrs_spec (new : list attr) : forall acc,
  merge_attrs acc new = (acc ++ firsts_from (map aname acc) new,
                         dup_diags (dups_from (map aname acc) new)).
Proof.
  induction new as [|a r IH]; intro acc.
  - cbn. rewrite app_nil_r. reflexivity.
  - cbn [merge_attrs firsts_from dups_from]. destruct (mem (aname a) (map aname acc)) eqn:M.
    + rewrite IH. reflexivity.
    + rewrite IH, <- app_assoc. cbn [app].
      assert (forall n, mem n (map aname (acc ++ [a])) = mem n (aname a :: map aname acc)) as MX.
      { intro n. rewrite map_app, mem_app, mem_cons. cbn [map mem existsb].
        rewrite orb_false_r. apply orb_comm. }
      rewrite (firsts_from_ext _ _ _ r MX), (dups_from_ext _ _ _ r MX). reflexivity.
Qed.

Lemma dups_from_nodup seen (l : list attr) :
  NoDup (map aname l) -> dups_from seen l = filter (fun a => mem (aname a) seen) l.
Proof.
  revert seen. induction l as [|x r IH]; intros seen ND; [reflexivity|].
  inversion ND as [|? ? Hn ND']; subst. cbn [dups_from filter].
  destruct (mem (aname x) seen) eqn:M.
  - rewrite IH by assumption. reflexivity.
  - rewrite IH by assumption. apply filter_ext_in. intros a Ha. rewrite mem_cons.
    destruct (String.eqb (aname a) (aname x)) eqn:E; [|reflexivity].
    apply String.eqb_eq in E. exfalso. apply Hn. rewrite <- E. apply in_map. exact Ha.
Qed.

Lemma In_dups_from_app (l : list attr) : forall s1 s2 a,
  In a (dups_from (s1 ++ s2) l) <-> In a (dups_from s2 l) \/ (In a l /\ mem (aname a) s1 = true).
Proof.
  induction l as [|x r IH]; intros s1 s2 a.
  - simpl. tauto.
  - cbn [dups_from]. rewrite mem_app.
    destruct (mem (aname x) s2) eqn:M2.
    + rewrite orb_true_r. cbn [In]. rewrite (IH s1 s2 a). split.
      * intros [H|[H|H]]; tauto.
      * intros [[H|H]|[[H|H] H']]; tauto.
    + rewrite orb_false_r. destruct (mem (aname x) s1) eqn:M1.
      * cbn [In]. rewrite (IH s1 s2 a).
        rewrite (IH [aname x] s2 a). cbn [mem existsb]. rewrite orb_false_r. split.
        -- intros [H|[H|[H H']]]; [subst; tauto|tauto|tauto].
        -- intros [[H|[H H']]|[[H|H] H']]; try tauto.
           apply String.eqb_eq in H'. right. right. split; [exact H|]. rewrite H'. exact M1.
      * assert (forall n, mem n (aname x :: s1 ++ s2) = mem n (s1 ++ aname x :: s2)) as MX.
        { intro n. rewrite mem_cons, !mem_app, mem_cons.
          destruct (String.eqb n (aname x)), (mem n s1); reflexivity. }
        rewrite (dups_from_ext _ _ _ r MX), (IH s1 (aname x :: s2) a). cbn [In]. split.
        -- intros [H|[H H']]; tauto.
        -- intros [H|[[H|H] H']]; try tauto. subst. congruence.
Qed.

Lemma In_dups_from_seen seen (l : list attr) a :
  In a (dups_from seen l) <-> In a (dups l) \/ (In a l /\ mem (aname a) seen = true).
Proof. unfold dups. rewrite <- (In_dups_from_app l seen [] a), app_nil_r. reflexivity. Qed.

Section Children.
Variable C : Type.
Variable I : BodyImpl V C.
Hypothesis L : Lawful I.

Notation M := (merged_impl I).

Definition remain_of (s' : schema) (b : C) : C := snd (fst (b_partial I s' b)).

(* the loop, in terms of the children's results *)
Lemma merged_loop_spec s' (bs : list C) : Forall (wf I) bs -> forall acc A BL LO D,
  merged_loop I s' true bs acc = (A, BL, LO, D) ->
  NoDup (map aname acc) ->
  (forall a, In a A <-> In a acc \/ In a (firsts_from (map aname acc) (sel_attrs s' (flat_map (items I) bs)))) /\
  NoDup (map aname A) /\
  BL = sel_blocks s' (flat_map (items I) bs) /\
  LO = map (remain_of s') bs /\
  (schema_ok s' -> missing s' (@nil attr) = [] -> forall x, In x D <->
      In x (flat_map (body_diags I) bs) \/
      In x (dup_diags (dups_from (map aname acc) (sel_attrs s' (flat_map (items I) bs)))) \/
      In x (block_diags s' (flat_map (items I) bs))).
Proof.
  destruct L as [_ Lonce Lrep _ _ _].
  induction bs as [|b r IH]; intros F acc A BL LO D E ND.
  - cbn in E. inversion E; subst. cbn. split; [tauto|]. split; [exact ND|].
    repeat split; try reflexivity; tauto.
  - inversion F as [|? ? Wb F']; subst. cbn [merged_loop] in E.
    pose proof (Lonce s' b Wb) as O. pose proof (Lrep s' b Wb) as R.
    destruct (b_partial I s' b) as [[c rb] d] eqn:EP. cbn [fst snd] in O. cbv beta iota zeta in R.
    destruct O as [Oa [On Ob]].
    rewrite merge_attrs_spec in E.
    set (acc' := acc ++ firsts_from (map aname acc) (cattrs c)) in *.
    destruct (merged_loop I s' true r acc') as [[[A' BL'] LO'] D'] eqn:ER. inversion E; subst. clear E.
    assert (NoDup (map aname acc')) as ND'.
    { unfold acc'. rewrite map_app. apply NoDup_app_intro; [exact ND|apply NoDup_firsts_from|].
      intros n H1 H2. apply names_firsts_from in H2. destruct H2 as [_ H2].
      apply mem_In in H1. congruence. }
    destruct (IH F' acc' _ _ _ _ ER ND') as [I1 [I2 [I3 [I4 I5]]]].
    set (Lb := sel_attrs s' (items I b)) in *.
    set (Lr := sel_attrs s' (flat_map (items I) r)) in *.
    assert (firsts_from [] (cattrs c) = cattrs c) as FC.
    { apply firsts_from_nodup; [exact On|reflexivity]. }
    assert (forall n, In n (map aname (cattrs c)) <-> In n (map aname Lb)) as NC.
    { intro n. split.
      - intro H. apply in_map_iff in H. destruct H as [a [Ea Ha]]. apply Oa in Ha.
        apply in_map_iff. exists a. apply In_firsts_from in Ha. tauto.
      - intro H. assert (In n (map aname (firsts_from [] Lb))) as H'
          by (apply names_firsts_from; split; [exact H|reflexivity]).
        apply in_map_iff in H'. destruct H' as [a [Ea Ha]]. apply Oa in Ha.
        apply in_map_iff. exists a. tauto. }
    assert (forall a, In a (firsts_from (map aname acc) (cattrs c)) <->
                      In a (firsts_from (map aname acc) Lb)) as FA.
    { intro a. rewrite (firsts_from_seen V (map aname acc) (cattrs c)).
      rewrite (firsts_from_seen V (map aname acc) Lb). rewrite !filter_In.
      unfold firsts. rewrite FC. rewrite (Oa a). reflexivity. }
    assert (forall n, mem n (map aname acc') = mem n (map aname Lb ++ map aname acc)) as MX.
    { apply mem_ext_in. intro n. unfold acc'. rewrite map_app, !in_app_iff.
      rewrite names_firsts_from, (NC n). split.
      - intros [H|[H _]]; tauto.
      - intros [H|H]; [|tauto]. destruct (mem n (map aname acc)) eqn:Mn.
        + apply mem_In in Mn. tauto.
        + tauto. }
    cbn [flat_map]. rewrite sel_attrs_app, sel_blocks_app, block_diags_app. fold Lb Lr.
    split; [|split; [exact I2|split; [|split]]].
    + intro a. rewrite (I1 a). rewrite (firsts_from_ext _ _ _ Lr MX).
      unfold acc'. rewrite in_app_iff, (FA a).
      rewrite firsts_from_app, in_app_iff. tauto.
    + rewrite I3, Ob. reflexivity.
    + cbn [map]. rewrite I4. unfold remain_of. rewrite EP. reflexivity.
    + intros Hok Hm x. specialize (I5 Hok Hm). specialize (R Hok).
      rewrite !in_app_iff, (I5 x), (R x). rewrite !in_app_iff.
      rewrite (dups_from_nodup _ _ On). rewrite dups_from_app.
      rewrite (dups_from_ext _ _ _ Lr MX).
      unfold dup_diags. rewrite map_app, in_app_iff, !in_map_iff.
      assert ((exists a, (Duplicate, aname a) = x /\ In a (dups_from (map aname acc) Lb)) <->
              (exists a, (Duplicate, aname a) = x /\ In a (dups Lb)) \/
              (exists a, (Duplicate, aname a) = x /\
                         In a (filter (fun a0 => mem (aname a0) (map aname acc)) (cattrs c)))) as DU.
      { split.
        - intros [a [Ea Ha]]. apply In_dups_from_seen in Ha. destruct Ha as [Ha|[Ha Hs]].
          + left. exists a. tauto.
          + right. assert (In (aname a) (map aname (cattrs c))) as Hn
              by (apply NC; apply in_map; exact Ha).
            apply in_map_iff in Hn. destruct Hn as [a' [Ea' Ha']]. exists a'. split; [congruence|].
            apply filter_In. split; [exact Ha'|]. rewrite Ea'. exact Hs.
        - intros [[a [Ea Ha]]|[a [Ea Ha]]].
          + exists a. split; [exact Ea|]. apply In_dups_from_seen. tauto.
          + apply filter_In in Ha. destruct Ha as [Ha Hs].
            assert (In (aname a) (map aname Lb)) as Hn by (apply NC; apply in_map; exact Ha).
            apply in_map_iff in Hn. destruct Hn as [a' [Ea' Ha']]. exists a'. split; [congruence|].
            apply In_dups_from_seen. right. split; [exact Ha'|]. rewrite Ea'. exact Hs. }
      rewrite (In_missing V s' (cattrs c) x).
      assert (~ (exists n, x = (MissingRequired, n) /\ In (n, true) (sattrs s') /\
                           ~ In n (map aname (cattrs c)))) as NM.
      { intros [n [E1 [E2 _]]].
        assert (In x (missing s' (@nil attr))) as X
          by (apply In_missing; exists n; split; [exact E1|split; [exact E2|intros []]]).
        rewrite Hm in X. destruct X. }
      tauto.
Qed.

(* content runs the same loop on the children's Content *)
Lemma merged_loop_content s' (bs : list C) : Forall (wf I) bs -> forall acc A BL LO D,
  merged_loop I s' true bs acc = (A, BL, LO, D) ->
  exists D', merged_loop I s' false bs acc = (A, BL, [], D') /\
    Permutation D' (D ++ flat_map (body_diags I) bs ++ rest_diags (flat_map (items I) LO)).
Proof.
  destruct L as [_ _ _ _ Lrest _].
  induction bs as [|b r IH]; intros F acc A BL LO D E.
  - cbn in E. inversion E; subst. exists []. split; [reflexivity|]. cbn. constructor.
  - inversion F as [|? ? Wb F']; subst. cbn [merged_loop] in *.
    pose proof (Lrest s' b Wb) as T.
    destruct (b_partial I s' b) as [[c rb] d] eqn:EP. destruct T as [Tc Td].
    destruct (b_content I s' b) as [c' dc] eqn:EC. cbn [fst snd] in Tc, Td. subst c'.
    destruct (merge_attrs acc (cattrs c)) as [acc' dd].
    destruct (merged_loop I s' true r acc') as [[[A' BL'] LO'] D0] eqn:ER. inversion E; subst. clear E.
    destruct (IH F' _ _ _ _ _ ER) as [D1 [E1 P1]]. rewrite E1.
    exists (dc ++ dd ++ D1). split; [reflexivity|].
    cbn [flat_map app]. rewrite rest_diags_app.
    apply (Permutation_count_occ diag_dec). intro x.
    rewrite (Permutation_count_occ diag_dec) in Td, P1. specialize (Td x). specialize (P1 x).
    repeat rewrite count_occ_app in *. lia.
Qed.

Lemma Forall_wf_remain s' (bs : list C) : Forall (wf I) bs -> Forall (wf I) (map (remain_of s') bs).
Proof.
  destruct L as [_ _ _ Lkeep _ _]. intro F. apply Forall_forall. intros x Hx.
  apply in_map_iff in Hx. destruct Hx as [b [E Hb]]. subst. rewrite Forall_forall in F.
  exact (proj1 (Lkeep s' b (F b Hb))).
Qed.

Lemma merged_unfold s (mb : list C) :
  exists A BL LO D, merged_loop I (nonreq s) true mb [] = (A, BL, LO, D) /\
    mpartial V C I s mb = ({| cattrs := A; cblocks := BL |}, LO, D ++ missing s A).
Proof.
  unfold mpartial, merged_content.
  destruct (merged_loop I (nonreq s) true mb []) as [[[A BL] LO] D].
  exists A, BL, LO, D. split; reflexivity.
Qed.

Lemma merged_items_ok : items_ok M.
Proof.
  intros mb W. cbn [items merged_impl wf] in *. apply Forall_forall. intros it H.
  apply in_flat_map in H. destruct H as [b [Hb Hit]]. rewrite Forall_forall in W.
  pose proof (law_items_ok V I L b (W b Hb)) as F. rewrite Forall_forall in F. exact (F it Hit).
Qed.

Lemma merged_exactly_once : content_exactly_once M.
Proof.
  intros s mb W. cbn [b_partial items merged_impl wf] in *.
  destruct (merged_unfold s mb) as [A [BL [LO [D [EL EP]]]]]. rewrite EP. cbn [fst snd cattrs cblocks].
  destruct (merged_loop_spec _ _ W _ _ _ _ _ EL) as [I1 [I2 [I3 _]]]; [constructor|].
  rewrite sel_attrs_nonreq, sel_blocks_nonreq in *. split; [|split; assumption].
  intro a. rewrite (I1 a). cbn [In map]. unfold firsts. tauto.
Qed.

Lemma merged_partial_reports : partial_reports M.
Proof.
  intros s mb W Hok. cbn [b_partial items merged_impl wf body_diags] in *.
  destruct (merged_unfold s mb) as [A [BL [LO [D [EL EP]]]]]. rewrite EP. cbn [cattrs].
  destruct (merged_loop_spec _ _ W _ _ _ _ _ EL) as [_ [_ [_ [_ I5]]]]; [constructor|].
  specialize (I5 (schema_ok_nonreq s Hok) (missing_nonreq s [])).
  rewrite sel_attrs_nonreq, block_diags_nonreq in I5.
  intro x. rewrite !in_app_iff, (I5 x). unfold dups. cbn [map]. tauto.
Qed.

Lemma merged_keeps_rest : partial_keeps_rest M.
Proof.
  intros s mb W. cbn [b_partial items merged_impl wf body_diags] in *.
  destruct (merged_unfold s mb) as [A [BL [LO [D [EL EP]]]]]. rewrite EP. cbn [fst snd].
  destruct (merged_loop_spec _ _ W _ _ _ _ _ EL) as [_ [_ [_ [I4 _]]]]; [constructor|]. subst LO.
  destruct L as [_ _ _ Lkeep _ _].
  split; [apply Forall_wf_remain; exact W|]. split.
  - rewrite filter_flat_map. rewrite flat_map_concat_map, map_map, <- flat_map_concat_map.
    apply flat_map_ext_In. intros b Hb. rewrite Forall_forall in W.
    destruct (Lkeep (nonreq s) b (W b Hb)) as [_ [K _]]. unfold remain_of. rewrite K.
    apply filter_ext. intro it. rewrite consumed_nonreq. reflexivity.
  - rewrite flat_map_concat_map, map_map, <- flat_map_concat_map.
    apply flat_map_ext_In. intros b Hb. rewrite Forall_forall in W.
    destruct (Lkeep (nonreq s) b (W b Hb)) as [_ [_ K]]. exact K.
Qed.

Lemma merged_reports_rest : content_reports_rest M.
Proof.
  intros s mb W. cbn [b_partial b_content items merged_impl wf body_diags] in *.
  destruct (merged_unfold s mb) as [A [BL [LO [D [EL EP]]]]]. rewrite EP.
  destruct (merged_loop_content _ _ W _ _ _ _ _ EL) as [D' [EC P]].
  unfold mcontent, merged_content. rewrite EC. cbn [fst snd]. split; [reflexivity|].
  apply (Permutation_count_occ diag_dec). intro x.
  rewrite (Permutation_count_occ diag_dec) in P. specialize (P x).
  repeat rewrite count_occ_app in *. lia.
Qed.

(* ---- JustAttributes ---------------------------------------------------------- *)
Lemma mja_loop_spec (bs : list C) : Forall (wf I) bs -> forall acc A D,
  mja_loop I bs acc = (A, D) -> NoDup (map aname acc) ->
  (forall a, In a A -> In a acc \/ In a (all_attrs (flat_map (items I) bs))) /\
  NoDup (map aname A) /\
  (forall n, In n (map aname acc) -> In n (map aname A)) /\
  (D = [] -> forall it v, In it (flat_map (items I) bs) -> iattr it = Some v -> ireport it <> [] ->
       In (iname it) (map aname A)).
Proof.
  destruct L as [_ _ _ _ _ Lja].
  induction bs as [|b r IH]; intros F acc A D E ND.
  - cbn in E. inversion E; subst. cbn. split; [tauto|]. split; [exact ND|]. split; [tauto|].
    intros _ it v [].
  - inversion F as [|? ? Wb F']; subst. cbn [mja_loop] in E.
    pose proof (Lja b Wb) as J. destruct (b_just_attrs I b) as [l d] eqn:EJ.
    destruct J as [J1 [J2 J3]].
    rewrite merge_attrs_spec in E.
    set (acc' := acc ++ firsts_from (map aname acc) l) in *.
    destruct (mja_loop I r acc') as [A' D'] eqn:ER. inversion E; subst. clear E.
    assert (NoDup (map aname acc')) as ND'.
    { unfold acc'. rewrite map_app. apply NoDup_app_intro; [exact ND|apply NoDup_firsts_from|].
      intros n H1 H2. apply names_firsts_from in H2. destruct H2 as [_ H2].
      apply mem_In in H1. congruence. }
    destruct (IH F' acc' _ _ ER ND') as [I1 [I2 [I3 I4]]].
    cbn [flat_map]. rewrite all_attrs_app.
    split; [|split; [exact I2|split]].
    + intros a Ha. apply I1 in Ha. rewrite in_app_iff. unfold acc' in Ha. rewrite in_app_iff in Ha.
      destruct Ha as [[Ha|Ha]|Ha]; [tauto| |tauto].
      apply In_firsts_from in Ha. destruct Ha as [Ha _]. apply J1 in Ha. tauto.
    + intros n Hn. apply I3. unfold acc'. rewrite map_app, in_app_iff. tauto.
    + intros HD it v Hit Hv Hr. apply app_eq_nil in HD. destruct HD as [HD1 HD2].
      apply app_eq_nil in HD2. destruct HD2 as [_ HD2].
      apply in_app_iff in Hit. destruct Hit as [Hit|Hit].
      * apply I3. unfold acc'. rewrite map_app, in_app_iff.
        pose proof (J3 HD1 it v Hit Hv Hr) as Hn.
        destruct (mem (iname it) (map aname acc)) eqn:Mn.
        -- left. apply mem_In. exact Mn.
        -- right. apply names_firsts_from. tauto.
      * exact (I4 HD2 it v Hit Hv Hr).
Qed.

Lemma merged_just_attrs : just_attrs_visible M.
Proof.
  intros mb W. cbn [b_just_attrs items merged_impl wf] in *. unfold mjust_attrs.
  destruct (mja_loop I mb []) as [A D] eqn:E.
  destruct (mja_loop_spec _ W _ _ _ E) as [I1 [I2 [_ I4]]]; [constructor|].
  split; [|split; assumption]. intros a Ha. apply I1 in Ha. destruct Ha as [[]|Ha]. exact Ha.
Qed.

(* the exact form of the JustAttributes law is preserved as well *)
Lemma NoDup_app_r {A} (l1 l2 : list A) : NoDup (l1 ++ l2) -> NoDup l2.
Proof. induction l1 as [|a r IH]; simpl; intro ND; [exact ND|]. inversion ND; auto. Qed.

Lemma mja_loop_exact (Hex : just_attrs_exact I) (bs : list C) : Forall (wf I) bs -> forall acc A D,
  mja_loop I bs acc = (A, D) ->
  NoDup (map aname acc ++ map aname (all_attrs (flat_map (items I) bs))) ->
  (D = [] <-> forall it, In it (flat_map (items I) bs) -> iattr it <> None).
Proof.
  destruct L as [_ _ _ _ _ Lja].
  induction bs as [|b r IH]; intros F acc A D E ND.
  - cbn in E. inversion E; subst. cbn. split; [intros _ it []|reflexivity].
  - inversion F as [|? ? Wb F']; subst. cbn [mja_loop] in E.
    pose proof (Lja b Wb) as J. pose proof (Hex b Wb) as X.
    destruct (b_just_attrs I b) as [l d] eqn:EJ. cbn [snd] in X.
    destruct J as [J1 [J2 _]].
    rewrite merge_attrs_spec in E.
    set (acc' := acc ++ firsts_from (map aname acc) l) in *.
    destruct (mja_loop I r acc') as [A' D'] eqn:ER. inversion E; subst. clear E.
    cbn [flat_map] in *. rewrite all_attrs_app, map_app in ND.
    set (Nb := map aname (all_attrs (items I b))) in *.
    set (Nr := map aname (all_attrs (flat_map (items I) r))) in *.
    assert (forall n, In n (map aname l) -> In n Nb) as SL.
    { intros n Hn. apply in_map_iff in Hn. destruct Hn as [a [Ea Ha]]. subst.
      apply in_map. apply J1. exact Ha. }
    assert (NoDup Nb) as NDb by (apply NoDup_app_r in ND; apply NoDup_app_l in ND; exact ND).
    assert (dups_from (map aname acc) l = []) as DD.
    { rewrite (dups_from_nodup _ _ J2). apply filter_none. intros a Ha.
      apply mem_nIn. intro Hin. apply (NoDup_app_disjoint _ _ (aname a) ND Hin).
      apply in_app_iff. left. apply SL. apply in_map. exact Ha. }
    rewrite DD. cbn [dup_diags map app].
    assert (NoDup (map aname acc' ++ Nr)) as ND'.
    { apply NoDup_app_intro.
      - unfold acc'. rewrite map_app. apply NoDup_app_intro;
          [apply NoDup_app_l in ND; exact ND|apply NoDup_firsts_from|].
        intros n H1 H2. apply names_firsts_from in H2. destruct H2 as [_ H2].
        apply mem_In in H1. congruence.
      - apply NoDup_app_r in ND. apply NoDup_app_r in ND. exact ND.
      - intros n Hn Hr. unfold acc' in Hn. rewrite map_app, in_app_iff in Hn.
        destruct Hn as [Hn|Hn].
        + apply (NoDup_app_disjoint _ _ n ND Hn). apply in_app_iff. right. exact Hr.
        + apply names_firsts_from in Hn. destruct Hn as [Hn _]. apply SL in Hn.
          apply NoDup_app_r in ND. exact (NoDup_app_disjoint _ _ n ND Hn Hr). }
    pose proof (IH F' acc' _ _ ER ND') as IH'. specialize (X NDb).
    split.
    + intro HD. apply app_eq_nil in HD. destruct HD as [HD1 HD2].
      intros it Hit. apply in_app_iff in Hit. destruct Hit as [Hit|Hit].
      * exact (proj1 X HD1 it Hit).
      * exact (proj1 IH' HD2 it Hit).
    + intro H.
      rewrite (proj2 X (fun it Hit => H it (proj2 (in_app_iff _ _ _) (or_introl Hit)))).
      rewrite (proj2 IH' (fun it Hit => H it (proj2 (in_app_iff _ _ _) (or_intror Hit)))).
      reflexivity.
Qed.

Lemma merged_just_attrs_exact : just_attrs_exact I -> just_attrs_exact M.
Proof.
  intros Hex mb W ND. cbn [b_just_attrs items merged_impl wf] in *. unfold mjust_attrs.
  destruct (mja_loop I mb []) as [A D] eqn:E. cbn [snd].
  exact (mja_loop_exact Hex _ W _ _ _ E ND).
Qed.

(* merged_preserves_laws *)
Theorem merged_lawful : Lawful M.
Proof.
  constructor.
  - exact merged_items_ok.
  - exact merged_exactly_once.
  - exact merged_partial_reports.
  - exact merged_keeps_rest.
  - exact merged_reports_rest.
  - exact merged_just_attrs.
Qed.

End Children.

(* ---- the sum of two lawful implementations is lawful ------------------------- *)
Section SumProofs.
Variables B1 B2 : Type.
Variable I1 : BodyImpl V B1.
Variable I2 : BodyImpl V B2.
Hypothesis L1 : Lawful I1.
Hypothesis L2 : Lawful I2.

Theorem sum_lawful : Lawful (sum_impl I1 I2).
Proof.
  destruct L1 as [A1 A2 A3 A4 A5 A6]. destruct L2 as [B1' B2' B3 B4 B5 B6].
  constructor.
  - intros [x|x] W; cbn [items sum_impl wf] in *; [apply A1|apply B1']; exact W.
  - intros s [x|x] W; cbn [b_partial items sum_impl wf] in *.
    + pose proof (A2 s x W) as H. destruct (b_partial I1 s x) as [[c r] d]. exact H.
    + pose proof (B2' s x W) as H. destruct (b_partial I2 s x) as [[c r] d]. exact H.
  - intros s [x|x] W Hok; cbn [b_partial items sum_impl wf body_diags] in *.
    + pose proof (A3 s x W Hok) as H. destruct (b_partial I1 s x) as [[c r] d]. exact H.
    + pose proof (B3 s x W Hok) as H. destruct (b_partial I2 s x) as [[c r] d]. exact H.
  - intros s [x|x] W; cbn [b_partial items sum_impl wf body_diags] in *.
    + pose proof (A4 s x W) as H. destruct (b_partial I1 s x) as [[c r] d]. exact H.
    + pose proof (B4 s x W) as H. destruct (b_partial I2 s x) as [[c r] d]. exact H.
  - intros s [x|x] W; cbn [b_partial b_content items sum_impl wf body_diags] in *.
    + pose proof (A5 s x W) as H. destruct (b_partial I1 s x) as [[c r] d]. exact H.
    + pose proof (B5 s x W) as H. destruct (b_partial I2 s x) as [[c r] d]. exact H.
  - intros [x|x] W; cbn [b_just_attrs items sum_impl wf] in *; [exact (A6 x W)|exact (B6 x W)].
Qed.
End SumProofs.

End MergedProofs.

(* a merge of native-syntax and JSON files, in any order and number *)
Definition mixed_impl : BodyImpl jvalue (list (nbody jvalue + jbody)) :=
  merged_impl (sum_impl (native_impl jvalue) json_impl).

Theorem mixed_lawful : Lawful mixed_impl.
Proof.
  apply merged_lawful. apply sum_lawful; [apply native_lawful|apply json_lawful].
Qed.

(* ---- summary: what every lawful implementation satisfies ----------------------- *)
Section Summary.
Context {V B : Type} (I : BodyImpl V B).
Hypothesis L : Lawful I.

Lemma lawful_exactly_once : content_exactly_once I.
Proof. destruct L; assumption. Qed.
Lemma lawful_partial_reports : partial_reports I.
Proof. destruct L; assumption. Qed.
Lemma lawful_keeps_rest : partial_keeps_rest I.
Proof. destruct L; assumption. Qed.
Lemma lawful_reports_rest : content_reports_rest I.
Proof. destruct L; assumption. Qed.
Lemma lawful_just_attrs : just_attrs_visible I.
Proof. destruct L; assumption. Qed.
Lemma lawful_two_step : two_step_equiv I.
Proof. apply two_step_equiv_holds. exact L. Qed.
Lemma lawful_k_step : k_step_equiv I.
Proof. apply k_step_equiv_holds. exact L. Qed.
End Summary.

Lemma native_two_step V : two_step_equiv (native_impl V).
Proof. apply lawful_two_step. apply native_lawful. Qed.
Lemma json_two_step : two_step_equiv json_impl.
Proof. apply lawful_two_step. apply json_lawful. Qed.
Lemma mixed_two_step : two_step_equiv mixed_impl.
Proof. apply lawful_two_step. apply mixed_lawful. Qed.
Lemma mixed_k_step : k_step_equiv mixed_impl.
Proof. apply lawful_k_step. apply mixed_lawful. Qed.

Lemma merged_native_just_attrs_exact V : just_attrs_exact (merged_impl (native_impl V)).
Proof. apply merged_just_attrs_exact; [apply native_lawful|apply native_just_attrs_exact]. Qed.
