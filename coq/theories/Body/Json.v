(* Body/Json.v — C04: model of the JSON-syntax body, /repo/json/structure.go
   (body.Content, PartialContent, JustAttributes, unpackBlock,
   collectDeepAttrs).  Definitions only.

   JSON values are abstract: objects keep their members in source order and
   MAY repeat a name (json/parser.go keeps all of them in objectVal.Attrs);
   numbers and booleans are opaque leaves, strings carry their content (only
   the dynblock wrapper of BodyCheck.v ever looks at it). The payload V of
   attributes and child bodies is the JSON value itself. *)
From HclV Require Import Base.Prelude Body.Laws.
From Coq Require Import String.
Open Scope list_scope.
Open Scope Z_scope.

Inductive jvalue :=
| JObj (members : list (name * jvalue))   (* *objectVal *)
| JArr (elems : list jvalue)              (* *arrayVal *)
| JNull                                   (* *nullVal *)
| JStr (s : string)                       (* *stringVal *)
| JLeaf (tag : Z).                        (* *numberVal, *booleanVal (opaque) *)

(* type body struct { val node; hiddenAttrs map[string]struct{} } — ONE name
   set for attributes and blocks *)
Record jbody := { jval : jvalue; jhidden : list name }.

Definition bad_type : diag := (BadType, EmptyString).

(* func (b *body) collectDeepAttrs: a single object, or an array of objects
   flattened in order; null gives nothing; anything else is an error *)
Definition collect_deep_attrs (v : jvalue) : list (name * jvalue) * list diag :=
  match v with
  | JNull => ([], [])
  | JObj ms => (ms, [])
  | JArr l =>
      (flat_map (fun e => match e with JObj ms => ms | _ => [] end) l,
       flat_map (fun e => match e with JObj _ => [] | _ => [bad_type] end) l)
  | JStr _ | JLeaf _ => ([], [bad_type])
  end.

Definition mk_block (t : name) (labels : list name) (v : jvalue) : block jvalue :=
  {| btype := t; blabels := labels; bbody := v |}.

(* func (b *body) unpackBlock; [k] = len(labelsLeft), [used] = labelsUsed.
   Label levels flatten like bodies ("//" is an ordinary label there). *)
Fixpoint unpack_block (k : nat) (v : jvalue) (t : name) (used : list name)
  : list (block jvalue) * list diag :=
  match k with
  | S k' =>
      let '(ms, ds) := collect_deep_attrs v in
      match ms with
      | [] => ([], ds ++ [(MissingBlockLabel, t)])
      | _ =>
          (flat_map (fun m => fst (unpack_block k' (snd m) t (used ++ [fst m]))) ms,
           ds ++ flat_map (fun m => snd (unpack_block k' (snd m) t (used ++ [fst m]))) ms)
      end
  | O =>
      match v with
      | JNull => ([], [])                                   (* no block content *)
      | JObj _ => ([mk_block t used v], [])                 (* single instance *)
      | JArr l => (map (fun av => mk_block t used av) l, [])(* multiple instances *)
      | JStr _ | JLeaf _ => ([], [bad_type])
      end
  end.

Definition jattr (n : name) (v : jvalue) : attr jvalue := {| aname := n; aval := v |}.

(* the main loop of PartialContent (structure.go:110-145) over the flattened
   properties; [hid] = b.hiddenAttrs (the receiver's), [used] = usedNames *)
Fixpoint jloop (s : schema) (hid : list name) (ms : list (name * jvalue))
               (got : list (attr jvalue)) (used : list name)
  : list (attr jvalue) * list (block jvalue) * list name * list diag :=
  match ms with
  | [] => (got, [], used, [])
  | (n, v) :: r =>
      if mem n hid then jloop s hid r got used
      else if mem n (attr_names s) then
        if mem n (map aname got) then
          let '(g, bs, u, ds) := jloop s hid r got used in (g, bs, u, (Duplicate, n) :: ds)
        else jloop s hid r (got ++ [jattr n v]) (n :: used)
      else match wanted n (sblocks s) with
           | Some k =>
               let '(b1, d1) := unpack_block (Z.to_nat k) v n [] in
               let '(g, bs, u, ds) := jloop s hid r got (n :: used) in
               (g, b1 ++ bs, u, d1 ++ ds)
           | None => jloop s hid r got used
           end
  end.

(* func (b *body) PartialContent *)
Definition jpartial (s : schema) (b : jbody) : content jvalue * jbody * list diag :=
  let '(ms, ad) := collect_deep_attrs (jval b) in
  let '(got, bs, used, ds) := jloop s (jhidden b) ms [] (jhidden b) in
  ({| cattrs := got; cblocks := bs |},
   {| jval := jval b; jhidden := used |},
   ad ++ ds ++ missing s got).

Definition comment_name : name := "//"%string.

(* the leftover scan of Content (structure.go:50-75) *)
Definition jleftovers (ms : list (name * jvalue)) (hid : list name) : list diag :=
  flat_map (fun m => if String.eqb (fst m) comment_name then []
                     else if mem (fst m) hid then []
                     else [(ExtraneousProp, fst m)]) ms.

(* func (b *body) Content; collectDeepAttrs runs a second time *)
Definition jcontent (s : schema) (b : jbody) : content jvalue * list diag :=
  let '(c, r, d) := jpartial s b in
  let '(ms, ad) := collect_deep_attrs (jval b) in
  (c, d ++ ad ++ jleftovers ms (jhidden r)).

Fixpoint jja_loop (hid : list name) (ms : list (name * jvalue)) (got : list (attr jvalue))
  : list (attr jvalue) * list diag :=
  match ms with
  | [] => (got, [])
  | (n, v) :: r =>
      if String.eqb n comment_name then jja_loop hid r got
      else if mem n hid then jja_loop hid r got
      else if mem n (map aname got) then
        let '(g, ds) := jja_loop hid r got in (g, (Duplicate, n) :: ds)
      else jja_loop hid r (got ++ [jattr n v])
  end.

(* func (b *body) JustAttributes: a single object is required *)
Definition jjust_attrs (b : jbody) : list (attr jvalue) * list diag :=
  match jval b with
  | JObj ms => jja_loop (jhidden b) ms []
  | _ => ([], [bad_type])
  end.

(* ---- abstraction ---------------------------------------------------------- *)
Definition item_of_member (m : name * jvalue) : item jvalue :=
  {| iname := fst m;
     iattr := Some (snd m);
     iblock := Some (fun k => unpack_block (Z.to_nat k) (snd m) (fst m) []);
     ireport := if String.eqb (fst m) comment_name then [] else [(ExtraneousProp, fst m)] |}.

Definition jmembers (b : jbody) : list (name * jvalue) := fst (collect_deep_attrs (jval b)).

Definition jitems (b : jbody) : list (item jvalue) :=
  map item_of_member (filter (fun m => negb (mem (fst m) (jhidden b))) (jmembers b)).

Definition json_impl : BodyImpl jvalue jbody :=
  {| b_partial := jpartial; b_content := jcontent; b_just_attrs := jjust_attrs;
     wf := fun _ => True; items := jitems;
     body_diags := fun b => snd (collect_deep_attrs (jval b)) |}.
