(* Body/LawsProofs.v — C04: consequences of the laws of Body/Laws.v that hold
   for EVERY lawful implementation: the two-step law of spec.md and its k-step
   generalisation. Plus the list lemmas shared by the instance proofs. *)
From HclV Require Import Base.Prelude Body.Laws.
From Coq Require Import String Permutation.
Open Scope list_scope.
Open Scope Z_scope.

(* ---- names ---------------------------------------------------------------- *)
Lemma mem_In n l : mem n l = true <-> In n l.
Proof.
  unfold mem. rewrite existsb_exists. split.
  - intros [x [H E]]. apply String.eqb_eq in E. subst. exact H.
  - intros H. exists n. split; [exact H|apply String.eqb_refl].
Qed.

Lemma mem_nIn n l : mem n l = false <-> ~ In n l.
Proof.
  rewrite <- mem_In. destruct (mem n l); split; intro H.
  - discriminate.
  - exfalso. apply H. reflexivity.
  - intro; discriminate.
  - reflexivity.
Qed.

Lemma mem_app n l1 l2 : mem n (l1 ++ l2) = mem n l1 || mem n l2.
Proof. unfold mem. apply existsb_app. Qed.

Lemma mem_cons n x l : mem n (x :: l) = String.eqb n x || mem n l.
Proof. reflexivity. Qed.

Lemma mem_ext_in l1 l2 : (forall n, In n l1 <-> In n l2) -> forall n, mem n l1 = mem n l2.
Proof.
  intros H n. destruct (mem n l1) eqn:E1; destruct (mem n l2) eqn:E2; try reflexivity.
  - apply mem_In in E1. apply H in E1. apply mem_In in E1. congruence.
  - apply mem_In in E2. apply H in E2. apply mem_In in E2. congruence.
Qed.

Lemma wanted_app t l1 l2 :
  wanted t (l1 ++ l2) = match wanted t l2 with Some k => Some k | None => wanted t l1 end.
Proof.
  induction l1 as [|[t' k] r IH]; simpl.
  - destruct (wanted t l2); reflexivity.
  - rewrite IH. destruct (wanted t l2); [reflexivity|]. reflexivity.
Qed.

Lemma wanted_none t l : wanted t l = None <-> ~ In t (map fst l).
Proof.
  induction l as [|[t' k] r IH]; simpl.
  - split; auto.
  - destruct (wanted t r) eqn:E.
    + split; [discriminate|]. intro H. exfalso.
      assert (~ In t (map fst r)) as H' by (intro; apply H; right; assumption).
      apply IH in H'. discriminate.
    + destruct (String.eqb t t') eqn:E'.
      * split; [discriminate|]. intro H. exfalso. apply H. left.
        apply String.eqb_eq in E'. congruence.
      * split; [|reflexivity]. intros _ [H|H].
        -- apply String.eqb_neq in E'. congruence.
        -- apply IH in H; auto.
Qed.

Lemma wanted_some t l k : wanted t l = Some k -> In t (map fst l).
Proof.
  intro H. destruct (in_dec string_dec t (map fst l)) as [i|n]; [exact i|].
  apply wanted_none in n. congruence.
Qed.

Lemma attr_names_union s1 s2 : attr_names (union s1 s2) = attr_names s1 ++ attr_names s2.
Proof. unfold attr_names, union. simpl. apply map_app. Qed.
Lemma block_names_union s1 s2 : block_names (union s1 s2) = block_names s1 ++ block_names s2.
Proof. unfold block_names, union. simpl. apply map_app. Qed.

Lemma set_eq_nil {A} (l l' : list A) : set_eq l l' -> (l = [] <-> l' = []).
Proof.
  intro H. split; intro E; subst.
  - destruct l' as [|x r]; [reflexivity|]. destruct (proj2 (H x) (or_introl eq_refl)).
  - destruct l as [|x r]; [reflexivity|]. destruct (proj1 (H x) (or_introl eq_refl)).
Qed.

Lemma set_eq_refl {A} (l : list A) : set_eq l l.
Proof. intro x. reflexivity. Qed.
Lemma set_eq_trans {A} (l1 l2 l3 : list A) : set_eq l1 l2 -> set_eq l2 l3 -> set_eq l1 l3.
Proof. intros H1 H2 x. rewrite (H1 x). apply H2. Qed.
Lemma set_eq_sym {A} (l1 l2 : list A) : set_eq l1 l2 -> set_eq l2 l1.
Proof. intros H x. symmetry. apply H. Qed.
Lemma set_eq_app {A} (a a' b b' : list A) : set_eq a a' -> set_eq b b' -> set_eq (a ++ b) (a' ++ b').
Proof. intros H1 H2 x. rewrite !in_app_iff, (H1 x), (H2 x). reflexivity. Qed.
Lemma perm_set_eq {A} (l l' : list A) : Permutation l l' -> set_eq l l'.
Proof. intros H x. split; apply Permutation_in; [exact H|apply Permutation_sym; exact H]. Qed.

Lemma filter_comm {A} (p q : A -> bool) l : filter p (filter q l) = filter q (filter p l).
Proof.
  induction l as [|a r IH]; simpl; [reflexivity|].
  destruct (q a) eqn:Q; destruct (p a) eqn:P; simpl; rewrite ?Q, ?P, IH; reflexivity.
Qed.

Lemma filter_all {A} (p : A -> bool) l : (forall x, In x l -> p x = true) -> filter p l = l.
Proof.
  induction l as [|a r IH]; simpl; intro H; [reflexivity|].
  rewrite (H a (or_introl eq_refl)), IH; [reflexivity|]. intros; apply H; right; assumption.
Qed.

Lemma filter_none {A} (p : A -> bool) l : (forall x, In x l -> p x = false) -> filter p l = [].
Proof.
  induction l as [|a r IH]; simpl; intro H; [reflexivity|].
  rewrite (H a (or_introl eq_refl)), IH; [reflexivity|]. intros; apply H; right; assumption.
Qed.

Lemma NoDup_app_intro {A} (l1 l2 : list A) :
  NoDup l1 -> NoDup l2 -> (forall x, In x l1 -> ~ In x l2) -> NoDup (l1 ++ l2).
Proof.
  induction l1 as [|a r IH]; simpl; intros H1 H2 H; [exact H2|].
  inversion H1; subst. constructor.
  - rewrite in_app_iff. intros [X|X]; [contradiction|]. exact (H a (or_introl eq_refl) X).
  - apply IH; auto.
Qed.

Lemma flat_map_ext_In {A B} (f g : A -> list B) l :
  (forall x, In x l -> f x = g x) -> flat_map f l = flat_map g l.
Proof.
  induction l as [|a r IH]; simpl; intro H; [reflexivity|].
  rewrite (H a (or_introl eq_refl)), IH; [reflexivity|]. intros; apply H; right; assumption.
Qed.

Lemma flat_map_nil_In {A B} (f : A -> list B) l :
  (forall x, In x l -> f x = []) -> flat_map f l = [].
Proof.
  induction l as [|a r IH]; simpl; intro H; [reflexivity|].
  rewrite (H a (or_introl eq_refl)), IH; [reflexivity|]. intros; apply H; right; assumption.
Qed.

Section Payload.
Variable V : Type.
Notation attr := (attr V).
Notation item := (item V).

(* ---- firsts / dups -------------------------------------------------------- *)
Lemma firsts_from_ext (s1 s2 : list name) (l : list attr) :
  (forall n, mem n s1 = mem n s2) -> firsts_from s1 l = firsts_from s2 l.
Proof.
  revert s1 s2. induction l as [|a r IH]; simpl; intros s1 s2 H; [reflexivity|].
  rewrite (H (aname a)). destruct (mem (aname a) s2).
  - apply IH. exact H.
  - f_equal. apply IH. intro n. rewrite !mem_cons, H. reflexivity.
Qed.

Lemma dups_from_ext (s1 s2 : list name) (l : list attr) :
  (forall n, mem n s1 = mem n s2) -> dups_from s1 l = dups_from s2 l.
Proof.
  revert s1 s2. induction l as [|a r IH]; simpl; intros s1 s2 H; [reflexivity|].
  rewrite (H (aname a)). destruct (mem (aname a) s2).
  - f_equal. apply IH. exact H.
  - apply IH. intro n. rewrite !mem_cons, H. reflexivity.
Qed.

Lemma mem_swap n a b (s : list name) : mem n (a :: b :: s) = mem n (b :: a :: s).
Proof. rewrite !mem_cons. destruct (String.eqb n a), (String.eqb n b); reflexivity. Qed.

Lemma firsts_from_irrel (p : name -> bool) n seen (l : list attr) :
  p n = false ->
  filter (fun a => p (aname a)) (firsts_from (n :: seen) l)
  = filter (fun a => p (aname a)) (firsts_from seen l).
Proof.
  intro Hp. revert seen. induction l as [|a r IH]; intro seen; [reflexivity|].
  cbn [firsts_from]. rewrite mem_cons.
  destruct (String.eqb (aname a) n) eqn:E.
  - apply String.eqb_eq in E. cbn [orb].
    destruct (mem (aname a) seen).
    + apply IH.
    + cbn [filter]. rewrite E, Hp. rewrite <- E. reflexivity.
  - cbn [orb]. destruct (mem (aname a) seen).
    + apply IH.
    + cbn [filter]. destruct (p (aname a)).
      * f_equal. rewrite (firsts_from_ext (aname a :: n :: seen) (n :: aname a :: seen))
          by (intro; apply mem_swap). apply IH.
      * rewrite (firsts_from_ext (aname a :: n :: seen) (n :: aname a :: seen))
          by (intro; apply mem_swap). apply IH.
Qed.

Lemma dups_from_irrel (p : name -> bool) n seen (l : list attr) :
  p n = false ->
  filter (fun a => p (aname a)) (dups_from (n :: seen) l)
  = filter (fun a => p (aname a)) (dups_from seen l).
Proof.
  intro Hp. revert seen. induction l as [|a r IH]; intro seen; [reflexivity|].
  cbn [dups_from]. rewrite mem_cons.
  destruct (String.eqb (aname a) n) eqn:E.
  - apply String.eqb_eq in E. cbn [orb].
    destruct (mem (aname a) seen).
    + cbn [filter]. rewrite IH. reflexivity.
    + cbn [filter]. rewrite E, Hp. rewrite <- E. reflexivity.
  - cbn [orb]. destruct (mem (aname a) seen).
    + cbn [filter]. rewrite IH. reflexivity.
    + rewrite (dups_from_ext (aname a :: n :: seen) (n :: aname a :: seen))
        by (intro; apply mem_swap). apply IH.
Qed.

Lemma firsts_from_filter (p : name -> bool) seen (l : list attr) :
  firsts_from seen (filter (fun a => p (aname a)) l)
  = filter (fun a => p (aname a)) (firsts_from seen l).
Proof.
  revert seen. induction l as [|a r IH]; intro seen; [reflexivity|].
  cbn [filter firsts_from]. destruct (p (aname a)) eqn:P.
  - cbn [firsts_from]. destruct (mem (aname a) seen).
    + apply IH.
    + cbn [filter]. rewrite P. f_equal. apply IH.
  - destruct (mem (aname a) seen).
    + apply IH.
    + cbn [filter]. rewrite P. rewrite firsts_from_irrel by exact P. apply IH.
Qed.

Lemma dups_from_filter (p : name -> bool) seen (l : list attr) :
  dups_from seen (filter (fun a => p (aname a)) l)
  = filter (fun a => p (aname a)) (dups_from seen l).
Proof.
  revert seen. induction l as [|a r IH]; intro seen; [reflexivity|].
  cbn [filter dups_from]. destruct (p (aname a)) eqn:P.
  - cbn [dups_from]. destruct (mem (aname a) seen).
    + cbn [filter]. rewrite P. f_equal. apply IH.
    + apply IH.
  - destruct (mem (aname a) seen).
    + cbn [filter]. rewrite P. apply IH.
    + rewrite dups_from_irrel by exact P. apply IH.
Qed.

Lemma In_firsts_from seen (l : list attr) a :
  In a (firsts_from seen l) -> In a l /\ mem (aname a) seen = false.
Proof.
  revert seen. induction l as [|x r IH]; simpl; intros seen H; [contradiction|].
  destruct (mem (aname x) seen) eqn:E.
  - apply IH in H. tauto.
  - destruct H as [H|H].
    + subst. tauto.
    + apply IH in H. destruct H as [H1 H2]. rewrite mem_cons in H2.
      apply orb_false_iff in H2. tauto.
Qed.

Lemma In_dups_from seen (l : list attr) a : In a (dups_from seen l) -> In a l.
Proof.
  revert seen. induction l as [|x r IH]; simpl; intros seen H; [contradiction|].
  destruct (mem (aname x) seen).
  - destruct H as [H|H]; [tauto|]. right. eapply IH; eauto.
  - right. eapply IH; eauto.
Qed.

Lemma NoDup_firsts_from seen (l : list attr) : NoDup (map aname (firsts_from seen l)).
Proof.
  revert seen. induction l as [|x r IH]; simpl; intro seen; [constructor|].
  destruct (mem (aname x) seen); [apply IH|].
  simpl. constructor; [|apply IH].
  rewrite in_map_iff. intros [a [E H]]. apply In_firsts_from in H. destruct H as [_ H].
  rewrite mem_cons, E, String.eqb_refl in H. discriminate.
Qed.

(* with unique names there is nothing to drop *)
Lemma firsts_from_nodup seen (l : list attr) :
  NoDup (map aname l) -> (forall a, In a l -> mem (aname a) seen = false) ->
  firsts_from seen l = l /\ dups_from seen l = [].
Proof.
  revert seen. induction l as [|x r IH]; simpl; intros seen ND H; [tauto|].
  inversion ND; subst. rewrite (H x (or_introl eq_refl)).
  destruct (IH (aname x :: seen) H3) as [E1 E2].
  - intros a Ha. rewrite mem_cons. rewrite (H a (or_intror Ha)).
    destruct (String.eqb (aname a) (aname x)) eqn:E; [|reflexivity].
    apply String.eqb_eq in E. exfalso. apply H2. rewrite <- E. apply in_map. exact Ha.
  - rewrite E1, E2. tauto.
Qed.

(* firsts_from seen = the firsts whose name was not seen before *)
Lemma firsts_from_as_filter (s1 s2 : list name) (l : list attr) :
  firsts_from (s1 ++ s2) l = filter (fun a => negb (mem (aname a) s1)) (firsts_from s2 l).
Proof.
  revert s2. induction l as [|a r IH]; intro s2; [reflexivity|].
  cbn [firsts_from]. rewrite mem_app.
  destruct (mem (aname a) s2) eqn:E2.
  - rewrite orb_true_r. apply IH.
  - rewrite orb_false_r. destruct (mem (aname a) s1) eqn:E1.
    + cbn [filter]. rewrite E1. cbn [negb].
      rewrite (firsts_from_irrel (fun n => negb (mem n s1))) by (rewrite E1; reflexivity).
      apply IH.
    + cbn [filter]. rewrite E1. cbn [negb]. f_equal.
      rewrite <- IH. apply firsts_from_ext. intro n.
      rewrite mem_cons, !mem_app, mem_cons.
      destruct (String.eqb n (aname a)), (mem n s1); reflexivity.
Qed.

Lemma firsts_from_seen seen (l : list attr) :
  firsts_from seen l = filter (fun a => negb (mem (aname a) seen)) (firsts l).
Proof. unfold firsts. rewrite <- firsts_from_as_filter, app_nil_r. reflexivity. Qed.

Lemma firsts_from_app seen (l1 l2 : list attr) :
  firsts_from seen (l1 ++ l2) = firsts_from seen l1 ++ firsts_from (map aname l1 ++ seen) l2.
Proof.
  revert seen. induction l1 as [|a r IH]; intro seen; [reflexivity|].
  cbn [app firsts_from map]. destruct (mem (aname a) seen) eqn:E.
  - rewrite IH. f_equal. apply firsts_from_ext. intro n.
    rewrite mem_cons. destruct (String.eqb n (aname a)) eqn:En; [|reflexivity].
    apply String.eqb_eq in En. subst. rewrite mem_app, E, orb_true_r. reflexivity.
  - rewrite IH. cbn [app]. f_equal. f_equal. apply firsts_from_ext. intro n.
    rewrite mem_cons, !mem_app, mem_cons.
    destruct (String.eqb n (aname a)), (mem n (map aname r)); reflexivity.
Qed.

Lemma dups_from_app seen (l1 l2 : list attr) :
  dups_from seen (l1 ++ l2) = dups_from seen l1 ++ dups_from (map aname l1 ++ seen) l2.
Proof.
  revert seen. induction l1 as [|a r IH]; intro seen; [reflexivity|].
  cbn [app dups_from map]. destruct (mem (aname a) seen) eqn:E.
  - rewrite IH. cbn [app]. f_equal. f_equal. apply dups_from_ext. intro n.
    rewrite mem_cons. destruct (String.eqb n (aname a)) eqn:En; [|reflexivity].
    apply String.eqb_eq in En. subst. rewrite mem_app, E, orb_true_r. reflexivity.
  - rewrite IH. f_equal. apply dups_from_ext. intro n.
    rewrite mem_cons, !mem_app, mem_cons.
    destruct (String.eqb n (aname a)), (mem n (map aname r)); reflexivity.
Qed.

(* the names seen after a list: the list's names and the earlier ones *)
Lemma names_firsts_from seen (l : list attr) n :
  In n (map aname (firsts_from seen l)) <-> In n (map aname l) /\ mem n seen = false.
Proof.
  revert seen. induction l as [|a r IH]; simpl; intro seen.
  - tauto.
  - destruct (mem (aname a) seen) eqn:E.
    + rewrite IH. split.
      * tauto.
      * intros [[H|H] H']; [congruence|tauto].
    + simpl. rewrite IH, mem_cons. split.
      * intros [H|[H H']]; [subst; tauto|]. apply orb_false_iff in H'. tauto.
      * intros [[H|H] H']; [tauto|].
        destruct (String.eqb n (aname a)) eqn:En.
        -- apply String.eqb_eq in En. left. congruence.
        -- right. split; [exact H|]. simpl. exact H'.
Qed.

(* ---- selection ------------------------------------------------------------- *)
Lemma sel_attrs_filter s (its : list item) :
  sel_attrs s its = filter (fun a => mem (aname a) (attr_names s)) (all_attrs its).
Proof.
  induction its as [|it r IH]; [reflexivity|].
  unfold sel_attrs, all_attrs in *. cbn [flat_map]. rewrite filter_app, <- IH.
  unfold sel_attr. destruct (iattr it); [|reflexivity].
  cbn [filter aname]. destruct (mem (iname it) (attr_names s)); reflexivity.
Qed.

Lemma sel_attrs_app s (l1 l2 : list item) : sel_attrs s (l1 ++ l2) = sel_attrs s l1 ++ sel_attrs s l2.
Proof. unfold sel_attrs. apply flat_map_app. Qed.
Lemma sel_blocks_app s (l1 l2 : list item) : sel_blocks s (l1 ++ l2) = sel_blocks s l1 ++ sel_blocks s l2.
Proof. unfold sel_blocks. apply flat_map_app. Qed.
Lemma block_diags_app s (l1 l2 : list item) : block_diags s (l1 ++ l2) = block_diags s l1 ++ block_diags s l2.
Proof. unfold block_diags. apply flat_map_app. Qed.
Lemma rest_diags_app (l1 l2 : list item) : rest_diags (l1 ++ l2) = rest_diags l1 ++ rest_diags l2.
Proof. unfold rest_diags. apply flat_map_app. Qed.
Lemma all_attrs_app (l1 l2 : list item) : all_attrs (l1 ++ l2) = all_attrs l1 ++ all_attrs l2.
Proof. unfold all_attrs. apply flat_map_app. Qed.

Lemma In_sel_attrs s (its : list item) a :
  In a (sel_attrs s its) -> mem (aname a) (attr_names s) = true.
Proof. rewrite sel_attrs_filter, filter_In. tauto. Qed.

Lemma sel_attr_name s (it : item) a : sel_attr s it = Some a ->
  aname a = iname it /\ mem (iname it) (attr_names s) = true /\ iattr it = Some (aval a).
Proof.
  unfold sel_attr. destruct (iattr it); [|discriminate].
  destruct (mem (iname it) (attr_names s)); [|discriminate].
  intro H. inversion H. simpl. tauto.
Qed.

Lemma sel_block_name s (it : item) p : sel_block s it = Some p ->
  In (iname it) (block_names s) /\ sel_attr s it = None /\
  exists f k, iblock it = Some f /\ wanted (iname it) (sblocks s) = Some k /\ p = f k.
Proof.
  unfold sel_block. destruct (sel_attr s it); [discriminate|].
  destruct (iblock it) as [f|]; [|discriminate].
  destruct (wanted (iname it) (sblocks s)) as [k|] eqn:W; [|discriminate].
  intro H. inversion H. split; [|split; [reflexivity|]].
  - apply wanted_some in W. exact W.
  - exists f, k. tauto.
Qed.

Lemma missing_nil_schema got : missing (V:=V) empty_schema got = [].
Proof. reflexivity. Qed.

Lemma In_missing s (got : list attr) x :
  In x (missing s got) <->
  exists n, x = (MissingRequired, n) /\ In (n, true) (sattrs s) /\ ~ In n (map aname got).
Proof.
  unfold missing. rewrite in_flat_map. split.
  - intros [[n r] [H1 H2]]. simpl in H2. destruct r; simpl in H2; [|contradiction].
    destruct (mem n (map aname got)) eqn:E; simpl in H2; [contradiction|].
    destruct H2 as [H2|[]]. exists n. apply mem_nIn in E. auto.
  - intros [n [E [H1 H2]]]. exists (n, true). split; [exact H1|]. simpl.
    apply mem_nIn in H2. rewrite H2. simpl. left. congruence.
Qed.

(* ---- disjoint schemata ---------------------------------------------------- *)
Section TwoSchemata.
Variables s1 s2 : schema.
Hypothesis Hdis : disjoint s1 s2.

Lemma dis_l n : In n (schema_names s1) -> ~ In n (schema_names s2).
Proof. apply Hdis. Qed.
Lemma dis_r n : In n (schema_names s2) -> ~ In n (schema_names s1).
Proof. intros H H'. exact (Hdis n H' H). Qed.

Lemma schema_ok_union : schema_ok s1 -> schema_ok s2 -> schema_ok (union s1 s2).
Proof.
  unfold schema_ok. rewrite attr_names_union. intros H1 H2.
  apply NoDup_app_intro; auto. intros n Hn Hn'.
  apply (Hdis n); unfold schema_names; rewrite in_app_iff; auto.
Qed.

Lemma sel_attr_union (it : item) :
  sel_attr (union s1 s2) it = match sel_attr s1 it with Some a => Some a | None => sel_attr s2 it end.
Proof.
  unfold sel_attr. rewrite attr_names_union, mem_app. destruct (iattr it); [|reflexivity].
  destruct (mem (iname it) (attr_names s1)); simpl; reflexivity.
Qed.

Lemma consumed_union (it : item) :
  consumed (union s1 s2) it = consumed s1 it || consumed s2 it.
Proof.
  unfold consumed. rewrite attr_names_union, block_names_union, !mem_app.
  destruct (is_some (iattr it)), (is_some (iblock it)),
    (mem (iname it) (attr_names s1)), (mem (iname it) (attr_names s2)),
    (mem (iname it) (block_names s1)), (mem (iname it) (block_names s2)); reflexivity.
Qed.

Lemma not_in_names_l (it : item) :
  ~ In (iname it) (schema_names s1) ->
  sel_attr s1 it = None /\ wanted (iname it) (sblocks s1) = None /\ consumed s1 it = false.
Proof.
  unfold schema_names. rewrite in_app_iff. intro H.
  assert (mem (iname it) (attr_names s1) = false) as M1 by (apply mem_nIn; tauto).
  assert (mem (iname it) (block_names s1) = false) as M2 by (apply mem_nIn; tauto).
  split; [|split].
  - unfold sel_attr. rewrite M1. destruct (iattr it); reflexivity.
  - apply wanted_none. unfold block_names in H. tauto.
  - unfold consumed. rewrite M1, M2, !andb_false_r. reflexivity.
Qed.

Lemma not_in_names_r (it : item) :
  ~ In (iname it) (schema_names s2) ->
  sel_attr s2 it = None /\ wanted (iname it) (sblocks s2) = None.
Proof.
  unfold schema_names. rewrite in_app_iff. intro H.
  assert (mem (iname it) (attr_names s2) = false) as M1 by (apply mem_nIn; tauto).
  split.
  - unfold sel_attr. rewrite M1. destruct (iattr it); reflexivity.
  - apply wanted_none. unfold block_names in H. tauto.
Qed.

(* an item named by part 1 *)
Lemma sel_block_union_l (it : item) :
  In (iname it) (schema_names s1) ->
  sel_block (union s1 s2) it = sel_block s1 it /\ sel_block s2 it = None /\ sel_attr s2 it = None.
Proof.
  intro H. apply dis_l in H. destruct (not_in_names_r it H) as [A W].
  unfold sel_block. rewrite sel_attr_union, A. split; [|split; [|reflexivity]].
  - destruct (sel_attr s1 it); [reflexivity|].
    unfold union; cbn [sblocks]. rewrite wanted_app, W. reflexivity.
  - rewrite W. destruct (iblock it); reflexivity.
Qed.

(* an item not named by part 1 *)
Lemma sel_block_union_r (it : item) :
  ~ In (iname it) (schema_names s1) ->
  sel_block (union s1 s2) it = sel_block s2 it /\ sel_block s1 it = None /\
  sel_attr s1 it = None /\ consumed s1 it = false.
Proof.
  intro H. destruct (not_in_names_l it H) as [A [W C]].
  unfold sel_block. rewrite sel_attr_union, A. split; [|split; [|split; [reflexivity|assumption]]].
  - destruct (sel_attr s2 it); [reflexivity|].
    unfold union; cbn [sblocks]. rewrite wanted_app, W.
    destruct (wanted (iname it) (sblocks s2)); reflexivity.
  - rewrite W. destruct (iblock it); reflexivity.
Qed.

Lemma names_dec (it : item) :
  {In (iname it) (schema_names s1)} + {~ In (iname it) (schema_names s1)}.
Proof. apply in_dec. apply string_dec. Qed.

Definition rest1 (its : list item) := filter (fun it => negb (consumed s1 it)) its.

Lemma sel_attr2_unconsumed (it : item) a : sel_attr s2 it = Some a -> consumed s1 it = false.
Proof.
  intro H. apply sel_attr_name in H. destruct H as [_ [H _]]. apply mem_In in H.
  apply not_in_names_l. apply dis_r. unfold schema_names. rewrite in_app_iff. tauto.
Qed.

Lemma sel_attrs_rest1 (its : list item) : sel_attrs s2 (rest1 its) = sel_attrs s2 its.
Proof.
  induction its as [|it r IH]; [reflexivity|].
  unfold rest1 in *. cbn [filter]. destruct (consumed s1 it) eqn:C; cbn [negb].
  - rewrite IH. unfold sel_attrs at 2. cbn [flat_map].
    destruct (sel_attr s2 it) eqn:E; [|reflexivity].
    apply sel_attr2_unconsumed in E. congruence.
  - unfold sel_attrs in *. cbn [flat_map]. rewrite IH. reflexivity.
Qed.

Lemma sel_attrs_union_filter (its : list item) :
  sel_attrs (union s1 s2) its
  = filter (fun a => mem (aname a) (attr_names s1) || mem (aname a) (attr_names s2)) (all_attrs its).
Proof.
  rewrite sel_attrs_filter. apply filter_ext. intro a.
  rewrite attr_names_union, mem_app. reflexivity.
Qed.

(* A. attributes *)
Lemma firsts_union (its : list item) a :
  In a (firsts (sel_attrs (union s1 s2) its)) <->
  In a (firsts (sel_attrs s1 its)) \/ In a (firsts (sel_attrs s2 (rest1 its))).
Proof.
  rewrite sel_attrs_rest1, sel_attrs_union_filter, !sel_attrs_filter. unfold firsts.
  rewrite (firsts_from_filter (fun n => mem n (attr_names s1) || mem n (attr_names s2))).
  rewrite (firsts_from_filter (fun n => mem n (attr_names s1))).
  rewrite (firsts_from_filter (fun n => mem n (attr_names s2))).
  rewrite !filter_In, orb_true_iff. tauto.
Qed.

(* B. duplicates *)
Lemma dups_union (its : list item) a :
  In a (dups (sel_attrs (union s1 s2) its)) <->
  In a (dups (sel_attrs s1 its)) \/ In a (dups (sel_attrs s2 (rest1 its))).
Proof.
  rewrite sel_attrs_rest1, sel_attrs_union_filter, !sel_attrs_filter. unfold dups.
  rewrite (dups_from_filter (fun n => mem n (attr_names s1) || mem n (attr_names s2))).
  rewrite (dups_from_filter (fun n => mem n (attr_names s1))).
  rewrite (dups_from_filter (fun n => mem n (attr_names s2))).
  rewrite !filter_In, orb_true_iff. tauto.
Qed.

(* C. blocks, per type *)
Lemma of_type_same (t n : name) (l : list (block V)) :
  (forall bl, In bl l -> btype bl = n) ->
  of_type t l = if String.eqb t n then l else [].
Proof.
  intro H. unfold of_type. destruct (String.eqb t n) eqn:E.
  - apply filter_all. intros bl Hb. rewrite (H bl Hb). exact E.
  - apply filter_none. intros bl Hb. rewrite (H bl Hb). exact E.
Qed.

Lemma of_type_sel_blocks s t (its : list item) :
  Forall (@item_ok V) its ->
  of_type t (sel_blocks s its) = sel_blocks s (filter (fun it => String.eqb t (iname it)) its).
Proof.
  induction its as [|it r IH]; intro F; [reflexivity|].
  inversion F; subst. unfold sel_blocks in *. cbn [flat_map filter].
  unfold of_type in *. rewrite filter_app, IH by assumption.
  assert (filter (fun bl => String.eqb t (btype bl))
            match sel_block s it with Some p => fst p | None => [] end
          = if String.eqb t (iname it)
            then match sel_block s it with Some p => fst p | None => [] end else []) as E.
  { destruct (sel_block s it) as [p|] eqn:S.
    - apply sel_block_name in S. destruct S as [_ [_ [f [k [Hf [_ Hp]]]]]]. subst p.
      apply (of_type_same t (iname it)). intros bl Hb. eapply H1; eauto.
    - destruct (String.eqb t (iname it)); reflexivity. }
  rewrite E. destruct (String.eqb t (iname it)); reflexivity.
Qed.

Lemma sel_blocks_ext s s' (l : list item) :
  (forall it, In it l -> sel_block s it = sel_block s' it) -> sel_blocks s l = sel_blocks s' l.
Proof.
  intro H. unfold sel_blocks. apply flat_map_ext_In. intros it Hit. rewrite (H it Hit). reflexivity.
Qed.

Lemma sel_blocks_none s (l : list item) :
  (forall it, In it l -> sel_block s it = None) -> sel_blocks s l = [].
Proof.
  intro H. unfold sel_blocks. apply flat_map_nil_In. intros it Hit. rewrite (H it Hit). reflexivity.
Qed.

Lemma blocks_union t (its : list item) :
  Forall (@item_ok V) its ->
  of_type t (sel_blocks (union s1 s2) its)
  = of_type t (sel_blocks s1 its) ++ of_type t (sel_blocks s2 (rest1 its)).
Proof.
  intro F.
  assert (Forall (@item_ok V) (rest1 its)) as F1.
  { apply Forall_forall. intros x Hx. apply filter_In in Hx.
    rewrite Forall_forall in F. apply F. tauto. }
  rewrite !of_type_sel_blocks by assumption.
  unfold rest1. rewrite filter_comm.
  set (L := filter (fun it => String.eqb t (iname it)) its).
  assert (forall it, In it L -> iname it = t) as HL.
  { intros it Hit. apply filter_In in Hit. destruct Hit as [_ E].
    apply String.eqb_eq in E. congruence. }
  destruct (in_dec string_dec t (schema_names s1)) as [i|n].
  - rewrite (sel_blocks_ext (union s1 s2) s1 L).
    + rewrite (sel_blocks_none s2), app_nil_r; [reflexivity|].
      intros it Hit. apply filter_In in Hit. destruct Hit as [Hit _].
      apply sel_block_union_l. rewrite (HL it Hit). exact i.
    + intros it Hit. apply sel_block_union_l. rewrite (HL it Hit). exact i.
  - rewrite (sel_blocks_ext (union s1 s2) s2 L).
    + rewrite (sel_blocks_none s1 L). 
      * cbn [app]. f_equal. symmetry. apply filter_all. intros it Hit.
        destruct (sel_block_union_r it) as [_ [_ [_ C]]]; [rewrite (HL it Hit); exact n|].
        rewrite C. reflexivity.
      * intros it Hit. apply sel_block_union_r. rewrite (HL it Hit). exact n.
    + intros it Hit. apply sel_block_union_r. rewrite (HL it Hit). exact n.
Qed.

(* D. diagnostics of the selected blocks *)
Lemma block_diags_union (its : list item) x :
  In x (block_diags (union s1 s2) its) <->
  In x (block_diags s1 its) \/ In x (block_diags s2 (rest1 its)).
Proof.
  unfold block_diags. rewrite !in_flat_map. split.
  - intros [it [Hit Hx]]. destruct (names_dec it) as [i|n].
    + left. exists it. split; [exact Hit|].
      destruct (sel_block_union_l it i) as [E _]. rewrite <- E. exact Hx.
    + right. destruct (sel_block_union_r it n) as [E [_ [_ C]]]. exists it. split.
      * unfold rest1. apply filter_In. split; [exact Hit|]. rewrite C. reflexivity.
      * rewrite <- E. exact Hx.
  - intros [[it [Hit Hx]]|[it [Hit Hx]]].
    + exists it. split; [exact Hit|].
      destruct (sel_block s1 it) as [p|] eqn:S; [|contradiction].
      pose proof (sel_block_name _ _ _ S) as [Hn _].
      destruct (sel_block_union_l it) as [E _].
      { unfold schema_names. rewrite in_app_iff. right. exact Hn. }
      rewrite E, S. exact Hx.
    + apply filter_In in Hit. destruct Hit as [Hit _]. exists it. split; [exact Hit|].
      destruct (sel_block s2 it) as [p|] eqn:S; [|contradiction].
      pose proof (sel_block_name _ _ _ S) as [Hn _].
      destruct (sel_block_union_r it) as [E _].
      { apply dis_r. unfold schema_names. rewrite in_app_iff. right. exact Hn. }
      rewrite E, S. exact Hx.
Qed.

(* E. what is left after both passes *)
Lemma rest_union (its : list item) :
  filter (fun it => negb (consumed (union s1 s2) it)) its
  = filter (fun it => negb (consumed s2 it)) (rest1 its).
Proof.
  unfold rest1. induction its as [|it r IH]; [reflexivity|].
  cbn [filter]. rewrite consumed_union.
  destruct (consumed s1 it) eqn:C1; cbn [orb negb].
  - exact IH.
  - cbn [filter]. destruct (consumed s2 it); cbn [negb]; rewrite IH; reflexivity.
Qed.

(* F. required attributes *)
Lemma missing_union (A A1 A2 : list attr) :
  set_eq A (A1 ++ A2) ->
  (forall a, In a A1 -> In (aname a) (attr_names s1)) ->
  (forall a, In a A2 -> In (aname a) (attr_names s2)) ->
  forall x, In x (missing (union s1 s2) A) <-> In x (missing s1 A1) \/ In x (missing s2 A2).
Proof.
  intros HA H1 H2 x. rewrite !In_missing. unfold union; cbn [sattrs]. split.
  - intros [n [E [Hin Hn]]]. apply in_app_iff in Hin.
    destruct Hin as [Hin|Hin]; [left|right]; exists n; (split; [exact E|split; [exact Hin|]]);
      intro X; apply Hn; apply in_map_iff in X; destruct X as [a [Ea Ha]];
      apply in_map_iff; exists a; (split; [exact Ea|]); apply HA; apply in_app_iff; tauto.
  - intros [[n [E [Hin Hn]]]|[n [E [Hin Hn]]]]; exists n;
      (split; [exact E|split; [apply in_app_iff; tauto|]]);
      intro X; apply in_map_iff in X; destruct X as [a [Ea Ha]];
      apply HA in Ha; apply in_app_iff in Ha; destruct Ha as [Ha|Ha].
    + apply Hn. apply in_map_iff. exists a. tauto.
    + apply H2 in Ha. rewrite Ea in Ha.
      apply (Hdis n); unfold schema_names; rewrite in_app_iff; left; [|exact Ha].
      unfold attr_names. apply in_map_iff. exists (n, true). tauto.
    + apply H1 in Ha. rewrite Ea in Ha.
      apply (Hdis n); unfold schema_names; rewrite in_app_iff; left; [exact Ha|].
      unfold attr_names. apply in_map_iff. exists (n, true). tauto.
    + apply Hn. apply in_map_iff. exists a. tauto.
Qed.

End TwoSchemata.

(* ---- the two-step law, for every lawful implementation --------------------- *)
Section Generic.
Context {B : Type} (I : BodyImpl V B).
Hypothesis L : Lawful I.

Theorem two_step_equiv_holds : two_step_equiv I.
Proof.
  intros s1 s2 b Hwf Hok1 Hok2 Hdis.
  destruct L as [Lok Lonce Lrep Lkeep Lrest _].
  pose proof (schema_ok_union s1 s2 Hdis Hok1 Hok2) as Hok.
  (* step one *)
  pose proof (Lonce s1 b Hwf) as O1. pose proof (Lrep s1 b Hwf Hok1) as R1.
  pose proof (Lkeep s1 b Hwf) as K1.
  destruct (b_partial I s1 b) as [[c1 r1] d1] eqn:E1. cbn [fst snd] in O1, K1. cbv beta iota zeta in R1.
  destruct O1 as [O1a [O1n O1b]]. destruct K1 as [Hwf1 [K1 BD1]].
  (* step two *)
  pose proof (Lrest s2 r1 Hwf1) as T2. pose proof (Lonce s2 r1 Hwf1) as O2.
  pose proof (Lrep s2 r1 Hwf1 Hok2) as R2. pose proof (Lkeep s2 r1 Hwf1) as K2.
  destruct (b_partial I s2 r1) as [[c2' r2] dp2] eqn:E2'. cbn [fst snd] in O2, K2. cbv beta iota zeta in R2, T2.
  destruct T2 as [T2c T2d]. destruct O2 as [O2a [O2n O2b]]. destruct K2 as [_ [K2 _]].
  destruct (b_content I s2 r1) as [c2 d2] eqn:E2. cbn [fst snd] in T2c, T2d. subst c2'.
  (* one step with the union *)
  pose proof (Lrest (union s1 s2) b Hwf) as T. pose proof (Lonce (union s1 s2) b Hwf) as O.
  pose proof (Lrep (union s1 s2) b Hwf Hok) as R. pose proof (Lkeep (union s1 s2) b Hwf) as K.
  destruct (b_partial I (union s1 s2) b) as [[c' r] dp] eqn:E'. cbn [fst snd] in O, K. cbv beta iota zeta in R, T.
  destruct T as [Tc Td]. destruct O as [Oa [On Ob]]. destruct K as [_ [K _]].
  destruct (b_content I (union s1 s2) b) as [c d] eqn:E. cbn [fst snd] in Tc, Td. subst c'.
  set (its := items I b) in *.
  fold (rest1 s1 its) in K1. rewrite K1 in *.
  assert (forall a, In a (cattrs c1) -> In (aname a) (attr_names s1)) as N1.
  { intros a Ha. apply O1a in Ha. apply In_firsts_from in Ha. destruct Ha as [Ha _].
    apply In_sel_attrs in Ha. apply mem_In. exact Ha. }
  assert (forall a, In a (cattrs c2) -> In (aname a) (attr_names s2)) as N2.
  { intros a Ha. apply O2a in Ha. apply In_firsts_from in Ha. destruct Ha as [Ha _].
    apply In_sel_attrs in Ha. apply mem_In. exact Ha. }
  assert (set_eq (cattrs c) (cattrs c1 ++ cattrs c2)) as SA.
  { intro a. rewrite in_app_iff, Oa, O1a, O2a. apply firsts_union. exact Hdis. }
  split; [exact SA|]. split; [|split; [|split]].
  - rewrite map_app. apply NoDup_app_intro; auto.
    intros n H1 H2. apply in_map_iff in H1. destruct H1 as [a1 [Ea1 H1]].
    apply in_map_iff in H2. destruct H2 as [a2 [Ea2 H2]].
    apply N1 in H1. apply N2 in H2. rewrite Ea1 in H1. rewrite Ea2 in H2.
    apply (Hdis n); unfold schema_names; rewrite in_app_iff; tauto.
  - intro t. rewrite Ob, O1b, O2b. apply blocks_union; [exact Hdis|]. apply Lok. exact Hwf.
  - assert (set_eq d (d1 ++ d2)) as SD; [|exact SD].
    intro x. rewrite in_app_iff.
    rewrite (perm_set_eq _ _ Td x), (perm_set_eq _ _ T2d x).
    repeat rewrite in_app_iff.
    rewrite (R x), (R1 x), (R2 x). rewrite K, K2, BD1.
    rewrite (rest_union s1 s2 its).
    repeat rewrite in_app_iff.
    unfold dup_diags. rewrite !in_map_iff.
    pose proof (block_diags_union s1 s2 Hdis its x) as BDU.
    pose proof (missing_union s1 s2 Hdis _ _ _ SA N1 N2 x) as MU.
    assert ((exists a, (Duplicate, aname a) = x /\ In a (dups (sel_attrs (union s1 s2) its))) <->
            (exists a, (Duplicate, aname a) = x /\ In a (dups (sel_attrs s1 its))) \/
            (exists a, (Duplicate, aname a) = x /\ In a (dups (sel_attrs s2 (rest1 s1 its))))) as DU.
    { split.
      - intros [a [Ea Ha]]. apply (dups_union s1 s2 Hdis) in Ha. destruct Ha; [left|right]; exists a; tauto.
      - intros [[a [Ea Ha]]|[a [Ea Ha]]]; exists a; (split; [exact Ea|]); apply (dups_union s1 s2 Hdis); tauto. }
    tauto.
  - apply set_eq_nil. intro x. rewrite in_app_iff.
    rewrite (perm_set_eq _ _ Td x), (perm_set_eq _ _ T2d x).
    repeat rewrite in_app_iff.
    rewrite (R x), (R1 x), (R2 x). rewrite K, K2, BD1.
    rewrite (rest_union s1 s2 its).
    repeat rewrite in_app_iff.
    unfold dup_diags. rewrite !in_map_iff.
    pose proof (block_diags_union s1 s2 Hdis its x) as BDU.
    pose proof (missing_union s1 s2 Hdis _ _ _ SA N1 N2 x) as MU.
    assert ((exists a, (Duplicate, aname a) = x /\ In a (dups (sel_attrs (union s1 s2) its))) <->
            (exists a, (Duplicate, aname a) = x /\ In a (dups (sel_attrs s1 its))) \/
            (exists a, (Duplicate, aname a) = x /\ In a (dups (sel_attrs s2 (rest1 s1 its))))) as DU.
    { split.
      - intros [a [Ea Ha]]. apply (dups_union s1 s2 Hdis) in Ha. destruct Ha; [left|right]; exists a; tauto.
      - intros [[a [Ea Ha]]|[a [Ea Ha]]]; exists a; (split; [exact Ea|]); apply (dups_union s1 s2 Hdis); tauto. }
    tauto.
Qed.


(* ---- k steps ---------------------------------------------------------------- *)
Lemma union_empty_r s : union s empty_schema = s.
Proof. destruct s as [sa sb]. unfold union, empty_schema. cbn. rewrite !app_nil_r. reflexivity. Qed.

Lemma schema_names_union s1 s2 n :
  In n (schema_names (union s1 s2)) <-> In n (schema_names s1) \/ In n (schema_names s2).
Proof.
  unfold schema_names. rewrite attr_names_union, block_names_union, !in_app_iff. tauto.
Qed.

Lemma disjoint_union_all s l : Forall (disjoint s) l -> disjoint s (union_all l).
Proof.
  induction l as [|x r IH]; intro F.
  - intros n _ H. exact H.
  - inversion F; subst. intros n Hn H. cbn [union_all fold_right] in H.
    apply schema_names_union in H. destruct H as [H|H].
    + exact (H1 n Hn H).
    + exact (IH H2 n Hn H).
Qed.

Lemma schema_ok_union_all l : Forall schema_ok l -> pairwise_disjoint l -> schema_ok (union_all l).
Proof.
  induction l as [|x r IH]; intros F P.
  - constructor.
  - inversion F; subst. destruct P as [P1 P2]. cbn [union_all fold_right].
    apply schema_ok_union; auto. apply disjoint_union_all. exact P1.
Qed.

Lemma NoDup_app_disjoint {A} (l1 l2 : list A) x : NoDup (l1 ++ l2) -> In x l1 -> ~ In x l2.
Proof.
  induction l1 as [|a r IH]; simpl; intros ND H; [contradiction|].
  inversion ND as [|? ? Hn ND']; subst. destruct H as [H|H].
  - subst. intro X. apply Hn. apply in_app_iff. tauto.
  - apply IH; assumption.
Qed.

Lemma NoDup_app_l {A} (l1 l2 : list A) : NoDup (l1 ++ l2) -> NoDup l1.
Proof.
  induction l1 as [|a r IH]; simpl; intro ND; [constructor|].
  inversion ND as [|? ? Hn ND']; subst. constructor; auto.
  intro X. apply Hn. apply in_app_iff. tauto.
Qed.

Theorem k_step_equiv_holds : k_step_equiv I.
Proof.
  intros parts. induction parts as [|s rest IH]; intros last b Hwf Fok Pd.
  - cbn [run_steps app union_all fold_right]. rewrite union_empty_r.
    destruct L as [_ Lonce _ _ Lrest _].
    pose proof (Lrest last b Hwf) as T. pose proof (Lonce last b Hwf) as O.
    destruct (b_partial I last b) as [[c' r] dp]. cbn [fst snd] in O.
    destruct (b_content I last b) as [c d]. cbn [fst snd] in T. destruct T as [Tc _]. subst c'.
    destruct O as [_ [On _]].
    split; [apply set_eq_refl|]. split; [exact On|]. split; [reflexivity|].
    split; [apply set_eq_refl|reflexivity].
  - cbn [app] in Fok, Pd. inversion Fok as [|? ? Hok Fok']; subst. destruct Pd as [Pd1 Pd2].
    set (U := union_all (rest ++ [last])).
    assert (schema_ok U) as HokU by (apply schema_ok_union_all; assumption).
    assert (disjoint s U) as HdU by (apply disjoint_union_all; assumption).
    pose proof (two_step_equiv_holds s U b Hwf Hok HokU HdU) as TS.
    pose proof L as [_ _ _ Lkeep _ _]. pose proof (Lkeep s b Hwf) as K.
    cbn [run_steps app]. change (union_all (s :: rest ++ [last])) with (union s U).
    destruct (b_partial I s b) as [[c1 r1] d1] eqn:E1. cbn [fst snd] in K.
    destruct K as [Hwf1 _].
    specialize (IH last r1 Hwf1 Fok' Pd2). fold U in IH.
    destruct (run_steps I rest last r1) as [[a' b'] d'] eqn:ER.
    destruct (b_content I U r1) as [c2 d2] eqn:E2.
    destruct (b_content I (union s U) b) as [c d] eqn:E.
    destruct TS as [SA [ND [BL [SD _]]]]. destruct IH as [SA' [ND' [BL' [SD' _]]]].
    assert (set_eq d (d1 ++ d')) as SDk.
    { eapply set_eq_trans; [exact SD|]. apply set_eq_app; [apply set_eq_refl|exact SD']. }
    split; [|split; [|split; [|split]]].
    + eapply set_eq_trans; [exact SA|]. apply set_eq_app; [apply set_eq_refl|exact SA'].
    + rewrite map_app in *. apply NoDup_app_intro.
      * eapply NoDup_app_l. exact ND.
      * exact ND'.
      * intros n H1 H2. apply (NoDup_app_disjoint _ _ n ND H1).
        apply in_map_iff in H2. destruct H2 as [a [Ea Ha]]. apply SA' in Ha.
        apply in_map_iff. exists a. tauto.
    + intro t. rewrite BL, BL'. unfold of_type. rewrite filter_app. reflexivity.
    + exact SDk.
    + apply set_eq_nil. exact SDk.
Qed.

End Generic.
End Payload.
